/-
  Thread-level interpreter for the IDManager / EpochManager scenarios: virtual threads running
  programs (`probe, gid, hbget, guard, unguard, gpe, relist, gepoch, fwd, cur, min`), one
  `stepThread` per scheduling quantum.  ID claims and the exit path go through `IdMgr.step`; list
  handling through the pure functions of `Model/Epoch.lean`.  No Mathlib.
-/
import CppUtil.Model.IdMgr
import CppUtil.Model.Epoch

namespace CppUtil.TClient
open CppUtil CppUtil.Epoch

inductive Op where
  | probe (r : Nat) | gid | hbget
  | guard (v : Nat) | unguard (v : Nat) | gpe (v : Nat) | relist (v : Nat) | gepoch (v : Nat)
  | fwd (n : Nat) | cur | min | hold (n : Nat) | await (n : Nat) | bump
  deriving Repr, Inhabited

inductive Pend where
  | start
  | idStep
  | hbExpired (slot : Nat) | hbAssign (slot : Nat)
  | enterLoad | enterStore (slot : Nat)
  | loadE (slot : Nat) | leave (slot : Nat)
  | fwdLoadG | fwdExpired (i : Nat) | fwdLoadE (i : Nat) | fwdStoreG | fwdStoreM
  | loadCur | loadMin | holdStep | awaitStep (n : Nat)
  | exitStep
  | none
  deriving Repr, Inhabited, DecidableEq

structure Thread where
  prog : Array Op := #[]
  pc : Nat := 0
  phase : Nat := 0
  pend : Pend := .start
  probeStart : Nat := 0
  -- registers
  flag : Bool := false
  val : Nat := 0
  rep : Nat := 0
  scan : Nat := 0
  collected : List Nat := []
  cur : Nat := 0
  entered : Nat := 0
  lastList : List Nat := []
  begun : Bool := false
  exiting : Bool := false
  finished : Bool := false
  deriving Repr, Inhabited

structure Params where
  C : Consts
  n : Nat
  expireFirst : Bool
  ord : String → MO

/-- memory order of an IDManager event, from the regenerated table -/
def idOrd (P : Params) (e : Ev) : Ev :=
  { e with mo := P.ord (match e.op with | .load => "id.load" | .xchg => "id.xchg" | _ => "id.release") }

structure Client where
  ids : IdMgr.St := {}
  G : Nat := 0
  M : Nat := 0
  E : Array Nat := #[]
  /-- slot heartbeat: the thread whose token it refers to -/
  H : Array (Option Nat) := #[]
  nodes : List PNode := []
  nextNode : Nat := 1
  live : Nat := 1
  guards : Array (Option Nat) := #[]
  /-- reference to a published vector: (node id, epoch) -/
  lists : Array (Option (Nat × Nat)) := #[]
  threads : Array Thread := #[]
  -- ghosts mirrored from the harness
  ownerRun : Array (Option Nat) := #[]
  issued : Array (List Nat) := #[]
  myId : Array (Option Nat) := #[]
  turn : Nat := 0
  deriving Repr, Inhabited

def mkClient (P : Params) (nvars : Nat) (progs : Array (Array Op)) : Client :=
  { ids := IdMgr.mkSt P.n progs.size
    G := P.C.kInitialEpoch, M := P.C.kInitialEpoch
    E := Array.replicate P.n sizeMax
    H := Array.replicate P.n none
    nodes := initNodes P.C
    guards := Array.replicate nvars none
    lists := Array.replicate nvars none
    threads := progs.map fun p => { prog := p }
    ownerRun := Array.replicate P.n none
    issued := Array.replicate P.n []
    myId := Array.replicate progs.size none }

abbrev Out := List String

/-- next phase / blocking -/
inductive PhaseRes where
  | goto (n : Nat)
  | block (n : Nat)
  | doneOp

def getThread (c : Client) (t : Nat) : Thread := c.threads.getD t {}
def setThread (c : Client) (t : Nat) (th : Thread) : Client := { c with threads := c.threads.setIfInBounds t th }
def tloc (c : Client) (t : Nat) : IdMgr.TLoc := (c.ids.threads[t]?).getD .dead
def threadId (c : Client) (t : Nat) : Option Nat := (tloc c t).id?
def listStr (l : List Nat) : String := "[" ++ ",".intercalate (l.map toString) ++ "]"
def hbExpiredOf (c : Client) (slot : Nat) : Bool :=
  match c.H.getD slot none with
  | none => true
  | some t => !(c.ids.alive.getD t false)

/-- the thread needs an ID first: start the claim loop and come back to phase `ph` -/
def needClaim (P : Params) (c : Client) (t : Nat) (ph : Nat) : Option (Client × Out × PhaseRes) :=
  match tloc c t with
  | .fresh =>
    let th := getThread c t
    match IdMgr.step P.n P.expireFirst c.ids (.begin t th.probeStart) with
    | some (ids, _) => some (setThread { c with ids := ids } t { th with pend := .idStep }, [], .block ph)
    | none => none
  | .pLoad _ => some (setThread c t { (getThread c t) with pend := .idStep }, [], .block ph)
  | .pXchg _ => some (setThread c t { (getThread c t) with pend := .idStep }, [], .block ph)
  | _ => none

/-- resolve a list reference: the vector of epoch `e` in node `nid`, if that node is still linked -/
def derefList (P : Params) (c : Client) (r : Nat × Nat) : Option (List Nat) :=
  match c.nodes.find? (·.id == r.1) with
  | some n => some (vecOf n (lowerOf P.C r.2))
  | none => none

def runPhase (P : Params) (c : Client) (t : Nat) (k : Nat) (op : Op) (ph : Nat) : Client × Out × PhaseRes :=
  let th := getThread c t
  let slot := (threadId c t).getD 0
  match op with
  | .probe r => (setThread c t { th with probeStart := r }, [s!"R{k}=0"], .doneOp)
  | .gid =>
    match needClaim P c t 0 with
    | some r => r
    | none =>
      -- ghosts of the harness: uniqueness among running threads, earlier heartbeats of this ID
      let first := (c.myId.getD t none).isNone
      let dup := match c.ownerRun.getD slot none with | some o => o != t | none => false
      let liveOld := first && (c.issued.getD slot []).any fun t' => c.ids.alive.getD t' false
      let extra := (if dup then [s!"IDDUP{slot}"] else []) ++ (if liveOld then [s!"HBLIVE{slot}"] else [])
      let c := { c with ownerRun := c.ownerRun.setIfInBounds slot (some t), myId := c.myId.setIfInBounds t (some slot) }
      (c, [s!"R{k}={slot}"] ++ extra, .doneOp)
  | .hbget =>
    match needClaim P c t 0 with
    | some r => r
    | none =>
      let c := match c.myId.getD t none with
        | some id => { c with issued := c.issued.setIfInBounds id ((c.issued.getD id []) ++ [t]) }
        | none => c
      (c, [s!"R{k}={if c.ids.alive.getD t false then 0 else 1}"], .doneOp)
  | .guard v =>
    match ph with
    | 0 =>
      match needClaim P c t 0 with
      | some r => r
      | none => (setThread c t { th with pend := .hbExpired slot }, [], .block 1)
    | 1 => if th.flag then (setThread c t { th with pend := .hbAssign slot }, [], .block 2) else (c, [], .goto 2)
    | 2 => (setThread c t { th with pend := .enterLoad }, [], .block 3)
    | 3 => (setThread c t { th with pend := .enterStore slot }, [], .block 4)
    | 4 => (setThread c t { th with pend := .loadE slot }, [], .block 5)
    | 5 =>
      match c.guards.getD v none with
      | some s' => (setThread c t { th with pend := .leave s', entered := th.val }, [], .block 6)
      | none => (setThread c t { th with entered := th.val }, [], .goto 6)
    | _ => ({ c with guards := c.guards.setIfInBounds v (some slot) }, [s!"R{k}={th.entered}"], .doneOp)
  | .gpe v =>
    match ph with
    | 0 =>
      match needClaim P c t 0 with
      | some r => r
      | none => (setThread c t { th with pend := .hbExpired slot }, [], .block 1)
    | 1 => if th.flag then (setThread c t { th with pend := .hbAssign slot }, [], .block 2) else (c, [], .goto 2)
    | 2 => (setThread c t { th with pend := .enterLoad }, [], .block 3)
    | 3 => (setThread c t { th with pend := .enterStore slot }, [], .block 4)
    | 4 => (setThread c t { th with pend := .loadE slot }, [], .block 5)
    | 5 =>
      -- inside GetProtectedEpochs: look the vector up with the epoch just read
      let e := th.val
      let ref := (findNode P.C e c.nodes).map fun n => (n.id, e)
      let c := { c with lists := c.lists.setIfInBounds v ref }
      (setThread c t { th with pend := .loadE slot, cur := e }, [], .block 6)
    | 6 =>
      match c.guards.getD v none with
      | some s' => (setThread c t { th with pend := .leave s', entered := th.val }, [], .block 7)
      | none => (setThread c t { th with entered := th.val }, [], .goto 7)
    | _ =>
      let c := { c with guards := c.guards.setIfInBounds v (some slot) }
      let l := match c.lists.getD v none with
        | some r => (derefList P c r).map listStr |>.getD "freed"
        | none => "null"
      (c, [s!"R{k}={th.entered}:{l}"], .doneOp)
  | .unguard v =>
    match ph with
    | 0 =>
      match c.guards.getD v none with
      | some s' => (setThread c t { th with pend := .leave s' }, [], .block 1)
      | none => (c, [], .goto 1)
    | _ =>
      ({ c with guards := c.guards.setIfInBounds v none, lists := c.lists.setIfInBounds v none }, [s!"R{k}=0"], .doneOp)
  | .relist v =>
    let l := match c.lists.getD v none with
      | some r => (derefList P c r).map listStr |>.getD "freed"
      | none => "none"
    (c, [s!"R{k}={l}"], .doneOp)
  | .gepoch v =>
    match ph with
    | 0 => (setThread c t { th with pend := .loadE ((c.guards.getD v none).getD 0) }, [], .block 1)
    | _ => (c, [s!"R{k}={th.val}"], .doneOp)
  | .fwd n =>
    match ph with
    | 0 => (setThread c t { th with rep := if n = 0 then 1 else n }, [], .goto 1)
    | 1 =>
      if th.rep = 0 then (c, [s!"R{k}=0"], .doneOp)
      else (setThread c t { th with pend := .fwdLoadG }, ["FS"], .block 2)
    | 2 =>
      let next := th.cur + 1
      let (nodes, alloc) := maybeNewNode P.C c.nodes next c.nextNode
      let c := if alloc then { c with nodes := nodes, nextNode := c.nextNode + 1, live := c.live + 1 } else c
      (setThread c t { th with scan := 0, collected := [next, th.cur] }, if alloc then ["PA"] else [], .goto 3)
    | 3 =>
      if th.scan < P.n then (setThread c t { th with pend := .fwdExpired th.scan }, [], .block 4)
      else (c, [], .goto 6)
    | 4 =>
      if th.flag then (setThread c t { th with scan := th.scan + 1 }, [], .goto 3)
      else (setThread c t { th with pend := .fwdLoadE th.scan }, [], .block 5)
    | 5 =>
      let coll := if th.val < sizeMax then th.collected ++ [th.val] else th.collected
      (setThread c t { th with collected := coll, scan := th.scan + 1 }, [], .goto 3)
    | 6 =>
      match publish P.C c.nodes (th.cur + 1) th.collected with
      | some (chain, v, freed) =>
        let c := { c with nodes := chain, live := c.live - freed.length }
        -- a freed node that still holds a vector handed out to a guard holder is reported (`LFREE<var>`)
        let toks := freed.flatMap fun nid =>
          "PF" :: ((List.range c.lists.size).filter fun v =>
            match c.lists.getD v none with
            | some r => r.1 == nid
            | none => false).map (fun v => s!"LFREE{v}")
        (setThread c t { th with lastList := v, pend := .fwdStoreG }, toks, .block 7)
      | none => (c, ["HANG"], .doneOp)
    | 7 => (setThread c t { th with pend := .fwdStoreM }, [], .block 8)
    | _ =>
      (setThread c t { th with rep := th.rep - 1 },
        [s!"FE{c.G}:{c.M}:{listStr th.lastList}:{c.live}"], .goto 1)
  | .await n =>
    match ph with
    | 0 => (setThread c t { th with pend := .awaitStep n }, [], .block 1)
    | _ => if th.flag then (c, [s!"R{k}=0"], .doneOp) else (setThread c t { th with pend := .awaitStep n }, [], .block 1)
  | .bump => ({ c with turn := c.turn + 1 }, [s!"R{k}=0"], .doneOp)
  | .hold n =>
    match ph with
    | 0 => (setThread c t { th with rep := n }, [], .goto 1)
    | _ =>
      if th.rep = 0 then (c, [s!"R{k}=0"], .doneOp)
      else (setThread c t { th with rep := th.rep - 1, pend := .holdStep }, [], .block 1)
  | .cur =>
    match ph with
    | 0 => (setThread c t { th with pend := .loadCur }, [], .block 1)
    | _ => (c, [s!"R{k}={th.val}"], .doneOp)
  | .min =>
    match ph with
    | 0 => (setThread c t { th with pend := .loadMin }, [], .block 1)
    | _ => (c, [s!"R{k}={th.val}"], .doneOp)

def advance (P : Params) : Nat → Client → Nat → Out → Client × Out
  | 0, c, _, out => (c, out ++ ["FUEL"])
  | fuel + 1, c, t, out =>
    let th := getThread c t
    if th.exiting then
      -- thread-local destructors: the two steps of ~HeartBeater
      match tloc c t with
      | .exit1 _ => (setThread c t { th with pend := .exitStep }, out)
      | .exit2 _ => (setThread c t { th with pend := .exitStep }, out)
      | _ => (setThread c t { th with finished := true, pend := .none }, out)
    else if h : th.pc < th.prog.size then
      let op := th.prog[th.pc]
      let out := if th.begun then out else out ++ [s!"B{th.pc}"]
      let c := setThread c t { th with begun := true }
      let (c, o, r) := runPhase P c t th.pc op th.phase
      let th := getThread c t
      match r with
      | .goto n => advance P fuel (setThread c t { th with phase := n }) t (out ++ o)
      | .block n => (setThread c t { th with phase := n }, out ++ o)
      | .doneOp => advance P fuel (setThread c t { th with pc := th.pc + 1, phase := 0, pend := .none, begun := false }) t (out ++ o)
    else
      -- end of the program: no longer "running user code"
      let c := { c with ownerRun := c.ownerRun.map fun o => if o == some t then none else o }
      let ids := match IdMgr.step P.n P.expireFirst c.ids (.beginExit t) with
        | some (ids, _) => ids
        | none => c.ids
      advance P fuel (setThread { c with ids := ids } t { th with exiting := true }) t (out ++ ["X"])

def hexN (n : Nat) : String := "0x" ++ String.ofList (Nat.toDigits 16 n)
def atomStr (op loc mo : String) (rd wr : Nat) : String := s!"{op} {loc} {mo} rlx {hexN rd} {hexN wr} 1"
def pseudoStr (name loc : String) (rd wr : Nat) : String := s!"{name} {loc} - - {hexN rd} {hexN wr} 1"

/-- one scheduling quantum of thread `t` -/
def stepThread (P : Params) (c : Client) (t : Nat) : Option (Client × String × Out) :=
  let th := getThread c t
  let fuel := 64 * (th.prog.size + 4) + 16 * P.n + 4096
  let cont (c : Client) (th : Thread) (ev : String) : Option (Client × String × Out) :=
    let (c, out) := advance P fuel (setThread c t { th with pend := .none }) t []
    some (c, ev, out)
  if th.finished then none else
  match th.pend with
  | .none => none
  | .start => cont c th (pseudoStr "start" "-" 0 0)
  | .idStep =>
    match IdMgr.step P.n P.expireFirst c.ids (.atom t) with
    | some (ids, some e) =>
      let c := { c with ids := ids }
      match tloc c t with
      | .owner _ => cont c th (idOrd P e).toStr
      | _ => some (c, (idOrd P e).toStr, [])
    | _ => none
  | .exitStep =>
    let idv := match tloc c t with | .exit1 id => id | .exit2 id => id | _ => 0
    match IdMgr.step P.n P.expireFirst c.ids (.atom t) with
    | some (ids, e) =>
      let c := { c with ids := ids }
      let evs := match e with | some e => (idOrd P e).toStr | none => pseudoStr "hb.expire" "-" idv idv
      cont c th evs
    | none => none
  | .hbExpired slot =>
    let b := hbExpiredOf c slot
    cont c { th with flag := b } (pseudoStr "hb.expired" s!"H{slot}" (if b then 1 else 0) (if b then 1 else 0))
  | .hbAssign slot =>
    let c := { c with H := c.H.setIfInBounds slot (some t) }
    cont c th (pseudoStr "hb.assign" s!"H{slot}" 0 (if c.ids.alive.getD t false then 1 else 0))
  | .enterLoad => cont c { th with val := c.G } (atomStr "load" "G" (P.ord "epoch.getCurrent").toStr c.G c.G)
  | .enterStore slot =>
    let c := { c with E := c.E.setIfInBounds slot th.val }
    cont c th (atomStr "store" s!"E{slot}" (P.ord "epoch.enter").toStr 0 th.val)
  | .loadE slot =>
    let v := c.E.getD slot sizeMax
    cont c { th with val := v } (atomStr "load" s!"E{slot}" (P.ord "epoch.getProtected").toStr v v)
  | .leave slot =>
    let c := { c with E := c.E.setIfInBounds slot sizeMax }
    cont c th (atomStr "store" s!"E{slot}" (P.ord "epoch.leave").toStr 0 sizeMax)
  | .fwdLoadG => cont c { th with cur := c.G } (atomStr "load" "G" (P.ord "fwd.load").toStr c.G c.G)
  | .fwdExpired i =>
    let b := hbExpiredOf c i
    cont c { th with flag := b } (pseudoStr "hb.expired" s!"H{i}" (if b then 1 else 0) (if b then 1 else 0))
  | .fwdLoadE i =>
    let v := c.E.getD i sizeMax
    cont c { th with val := v } (atomStr "load" s!"E{i}" (P.ord "epoch.getProtected").toStr v v)
  | .fwdStoreG =>
    let c := { c with G := th.cur + 1 }
    cont c th (atomStr "store" "G" (P.ord "fwd.storeGlobal").toStr 0 (th.cur + 1))
  | .fwdStoreM =>
    let m := th.lastList.getLast?.getD 0
    let c := { c with M := m }
    cont c th (atomStr "store" "M" (P.ord "fwd.storeMin").toStr 0 m)
  | .loadCur => cont c { th with val := c.G } (atomStr "load" "G" (P.ord "mgr.getCurrent").toStr c.G c.G)
  | .holdStep => cont c th (pseudoStr "hold" "-" 0 0)
  | .awaitStep n => cont c { th with flag := decide (c.turn ≥ n) } (pseudoStr "await" "-" c.turn c.turn)
  | .loadMin => cont c { th with val := c.M } (atomStr "load" "M" (P.ord "mgr.getMin").toStr c.M c.M)

end CppUtil.TClient
