/-
  Word-lock core: the small-step model shared by `PessimisticLock` and `OptimisticLock`
  (one 64-bit word, test-and-CAS admission).  One *agent* is the life of one request /
  guard; every atomic operation of the C++ is one `stepA`.  The guard and update
  expressions, constants, memory orders and the retry bound are parameters (`WParams`);
  `Model/WInst.lean` instantiates them for the two classes from the generated constants.
  No Mathlib.
-/
import CppUtil.Core.Basic

namespace CppUtil.WLock
open CppUtil

/-- memory orders per call site (regenerated from the source on every run) -/
structure WOrders where
  lockLoad : Mode → MO
  lockCasS : Mode → MO
  lockCasF : Mode → MO
  relS : MO
  relSIX : MO
  relX : MO
  upgLoad : MO
  upgCasS : MO
  upgCasF : MO
  dng : MO
  gvLoad : MO := .acq
  prepLoad1 : MO := .acq
  prepLoad2 : MO := .acq
  prepCasS : MO := .rlx
  prepCasF : MO := .rlx
  vfFence : Bool → MO := fun _ => .rel
  vfLoad : Bool → MO := fun _ => .rlx
  tryLoad : Mode → MO := fun _ => .acq
  tryCasS : Mode → MO := fun _ => .rlx
  tryCasF : Mode → MO := fun _ => .rlx

/-- the parametric description of one word-lock class -/
structure WParams where
  /-- admission test of `Lock{S,SIX,X}` on the pre-loaded value -/
  lockGuard : Mode → Word → Bool
  /-- desired value of the admission CAS -/
  lockUpd : Mode → Word → Word
  /-- operand of `fetch_sub` in `UnlockS` -/
  relSArg : Word
  /-- operand of `fetch_xor` in `UnlockSIX` -/
  relSIXArg : Word
  /-- value stored by `UnlockX(new_ver)` -/
  relXVal : BitVec 32 → Word
  upgGuard : Word → Bool
  upgUpd : Word → Word
  /-- value stored by `DowngradeToSIX` -/
  dngVal : BitVec 32 → Word
  /-- `(cur & kXLock) == kNoLocks` -/
  noX : Word → Bool
  /-- `(cur & kAllLockMask) != 0` -/
  anyLock : Word → Bool
  prepUpd : Word → Word
  tryGuard : Mode → Word → Bool
  /-- the version-mismatch test inside the `TryLock*` lambdas -/
  tryVerNe : Mode → Word → BitVec 32 → Bool
  tryUpd : Mode → Word → Word
  /-- `static_cast<uint32_t>(cur & kVersionMask)` -/
  verOf : Word → BitVec 32
  /-- `static_cast<uint32_t>(cur)` -/
  castVer : Word → BitVec 32
  /-- `kRetryNum` -/
  retryNum : Nat
  ord : WOrders

/-- control location of one agent -/
inductive Loc where
  | idle
  | acqLoad (m : Mode)
  | acqCas (m : Mode) (seen : Word)
  /-- grant of mode `m`; `seen` is the word the granting CAS replaced -/
  | held (m : Mode) (seen : Word)
  | upgLoad
  | upgCas (seen : Word)
  | tryLoad (m : Mode) (ver : BitVec 32)
  | tryCas (m : Mode) (ver : BitVec 32) (seen : Word)
  | prep1 (i : Nat)
  | prep2
  | prepCas (seen : Word)
  | gvLoad
  | vfFence (comp : Bool)
  | vfLoad (comp : Bool)
  /-- finished without a grant; `r` is the word the result is computed from -/
  | done (r : Word)
  deriving DecidableEq, Repr, Inhabited

/-- what an idle agent can be asked to do -/
inductive Req where
  | lock (m : Mode)
  | tryLock (m : Mode) (ver : BitVec 32)
  | prepare
  | getVersion
  | verify (comp : Bool)
  deriving DecidableEq, Repr, Inhabited

structure St where
  w : Word := 0
  agents : List Loc := []
  deriving Repr, Inhabited, DecidableEq

def init : St := {}

/-- mode granted to an agent (an upgrader keeps its SIX grant until the flip) -/
def Loc.grant? : Loc → Option Mode
  | .held m _ => some m
  | .upgLoad => some .SIX
  | .upgCas _ => some .SIX
  | _ => none

/-- the agent is between API calls (no atomic step pending) -/
def Loc.stable : Loc → Bool
  | .idle => true
  | .held _ _ => true
  | .done _ => true
  | _ => false

def Req.start : Req → Loc
  | .lock m => .acqLoad m
  | .tryLock m v => .tryLoad m v
  | .prepare => .prep1 0
  | .getVersion => .gvLoad
  | .verify c => .vfFence c

/-- non-atomic (local) transitions and API entry points -/
inductive Act where
  /-- a new request object comes into existence -/
  | spawn
  /-- an idle agent enters an API call -/
  | start (i : Nat) (r : Req)
  /-- one atomic step; `ov` = value returned by a *relaxed pre-load* (none ⇒ the current word),
      `sp` = the weak CAS fails spuriously -/
  | atom (i : Nat) (ov : Option Word) (sp : Bool)
  /-- destructor / move-assignment over an owning guard; `nv` = `new_ver_` (X only) -/
  | release (i : Nat) (nv : BitVec 32)
  | downgrade (i : Nat) (nv : BitVec 32)
  /-- `UpgradeToX` entered (local: clears the guard's pointer) -/
  | upgrade (i : Nat)
  deriving Repr, Inhabited

def setLoc (s : St) (i : Nat) (l : Loc) : St := { s with agents := s.agents.set i l }

/-- the atomic step of agent `i` at location `loc` -/
def atomStep (P : WParams) (s : St) (i : Nat) (loc : Loc) (ov : Option Word) (sp : Bool) :
    Option (St × Ev) :=
  match loc with
  | .acqLoad m =>
    let v := ov.getD s.w
    let ev : Ev := { op := .load, loc := "", mo := P.ord.lockLoad m, rd := v, wr := v }
    if P.lockGuard m v then some (setLoc s i (.acqCas m v), ev) else some (s, ev)
  | .acqCas m seen =>
    if s.w = seen ∧ sp = false then
      some ({ setLoc s i (.held m seen) with w := P.lockUpd m seen },
        { op := .cas, loc := "", mo := P.ord.lockCasS m, moFail := P.ord.lockCasF m,
          rd := s.w, wr := P.lockUpd m seen, ok := true })
    else
      some (setLoc s i (.acqLoad m),
        { op := .cas, loc := "", mo := P.ord.lockCasS m, moFail := P.ord.lockCasF m,
          rd := s.w, wr := s.w, ok := false })
  | .upgLoad =>
    let v := ov.getD s.w
    let ev : Ev := { op := .load, loc := "", mo := P.ord.upgLoad, rd := v, wr := v }
    if P.upgGuard v then some (setLoc s i (.upgCas v), ev) else some (s, ev)
  | .upgCas seen =>
    if s.w = seen ∧ sp = false then
      some ({ setLoc s i (.held .X seen) with w := P.upgUpd seen },
        { op := .cas, loc := "", mo := P.ord.upgCasS, moFail := P.ord.upgCasF,
          rd := s.w, wr := P.upgUpd seen, ok := true })
    else
      some (setLoc s i .upgLoad,
        { op := .cas, loc := "", mo := P.ord.upgCasS, moFail := P.ord.upgCasF,
          rd := s.w, wr := s.w, ok := false })
  | .tryLoad m ver =>
    let v := s.w
    let ev : Ev := { op := .load, loc := "", mo := P.ord.tryLoad m, rd := v, wr := v }
    if P.tryGuard m v then
      if P.tryVerNe m v ver then some (setLoc s i (.done v), ev)
      else some (setLoc s i (.tryCas m ver v), ev)
    else some (s, ev)
  | .tryCas m ver seen =>
    if s.w = seen ∧ sp = false then
      some ({ setLoc s i (.held m seen) with w := P.tryUpd m seen },
        { op := .cas, loc := "", mo := P.ord.tryCasS m, moFail := P.ord.tryCasF m,
          rd := s.w, wr := P.tryUpd m seen, ok := true })
    else
      some (setLoc s i (.tryLoad m ver),
        { op := .cas, loc := "", mo := P.ord.tryCasS m, moFail := P.ord.tryCasF m,
          rd := s.w, wr := s.w, ok := false })
  | .prep1 k =>
    let v := s.w
    let ev : Ev := { op := .load, loc := "", mo := P.ord.prepLoad1, rd := v, wr := v }
    if P.noX v then some (setLoc s i (.done v), ev)
    else if k ≥ P.retryNum then some (setLoc s i .prep2, ev)
    else some (setLoc s i (.prep1 (k + 1)), ev)
  | .prep2 =>
    let v := s.w
    let ev : Ev := { op := .load, loc := "", mo := P.ord.prepLoad2, rd := v, wr := v }
    if P.noX v then
      if P.anyLock v then some (setLoc s i (.done v), ev)
      else some (setLoc s i (.prepCas v), ev)
    else some (s, ev)
  | .prepCas seen =>
    if s.w = seen ∧ sp = false then
      some ({ setLoc s i (.held .S seen) with w := P.prepUpd seen },
        { op := .cas, loc := "", mo := P.ord.prepCasS, moFail := P.ord.prepCasF,
          rd := s.w, wr := P.prepUpd seen, ok := true })
    else
      some (setLoc s i .prep2,
        { op := .cas, loc := "", mo := P.ord.prepCasS, moFail := P.ord.prepCasF,
          rd := s.w, wr := s.w, ok := false })
  | .gvLoad =>
    let v := s.w
    let ev : Ev := { op := .load, loc := "", mo := P.ord.gvLoad, rd := v, wr := v }
    if P.noX v then some (setLoc s i (.done v), ev) else some (s, ev)
  | .vfFence c =>
    some (setLoc s i (.vfLoad c), { op := .fence, loc := "", mo := P.ord.vfFence c })
  | .vfLoad c =>
    let v := s.w
    let ev : Ev := { op := .load, loc := "", mo := P.ord.vfLoad c, rd := v, wr := v }
    if P.noX v then some (setLoc s i (.done v), ev) else some (setLoc s i (.vfFence c), ev)
  | .idle => none
  | .held _ _ => none
  | .done _ => none

/-- the (single) atomic step that ends a grant -/
def releaseStep (P : WParams) (s : St) (i : Nat) (loc : Loc) (nv : BitVec 32) : Option (St × Ev) :=
  match loc with
  | .held .S _ =>
    let w' := s.w - P.relSArg
    some ({ setLoc s i (.done 0) with w := w' },
      { op := .fsub, loc := "", mo := P.ord.relS, rd := s.w, wr := w' })
  | .held .SIX _ =>
    let w' := s.w ^^^ P.relSIXArg
    some ({ setLoc s i (.done 0) with w := w' },
      { op := .fxor, loc := "", mo := P.ord.relSIX, rd := s.w, wr := w' })
  | .held .X _ =>
    let w' := P.relXVal nv
    some ({ setLoc s i (.done 0) with w := w' },
      { op := .store, loc := "", mo := P.ord.relX, rd := 0, wr := w' })
  | _ => none

def downgradeStep (P : WParams) (s : St) (i : Nat) (loc : Loc) (nv : BitVec 32) : Option (St × Ev) :=
  match loc with
  | .held .X seen =>
    let w' := P.dngVal nv
    some ({ setLoc s i (.held .SIX seen) with w := w' },
      { op := .store, loc := "", mo := P.ord.dng, rd := 0, wr := w' })
  | _ => none

/-- One transition.  `none` = the action is not enabled.  The event is present for atomic steps. -/
def step (P : WParams) (s : St) : Act → Option (St × Option Ev)
  | .spawn => some ({ s with agents := s.agents ++ [.idle] }, none)
  | .start i r =>
    match s.agents[i]? with
    | some .idle => some (setLoc s i r.start, none)
    | _ => none
  | .atom i ov sp =>
    match s.agents[i]? with
    | some loc => (atomStep P s i loc ov sp).map fun (s', e) => (s', some e)
    | none => none
  | .release i nv =>
    match s.agents[i]? with
    | some loc => (releaseStep P s i loc nv).map fun (s', e) => (s', some e)
    | none => none
  | .downgrade i nv =>
    match s.agents[i]? with
    | some loc => (downgradeStep P s i loc nv).map fun (s', e) => (s', some e)
    | none => none
  | .upgrade i =>
    match s.agents[i]? with
    | some (.held .SIX _) => some (setLoc s i .upgLoad, none)
    | _ => none

/-- run a list of actions; `none` as soon as one is not enabled -/
def run (P : WParams) (s : St) : List Act → Option St
  | [] => some s
  | a :: as =>
    match step P s a with
    | some (s', _) => run P s' as
    | none => none

/-- reachable = result of some action list from `init` -/
def Reachable (P : WParams) (s : St) : Prop := ∃ acts, run P init acts = some s

end CppUtil.WLock
