/-
  IDManager core: the reservation array, the probing claim loop of `GetHeartBeater`, the heartbeat
  token of each thread incarnation and the two steps of the thread-exit path.  Threads are agents;
  any number of threads, any capacity `N`, any probe start.  No Mathlib.
-/
import CppUtil.Core.Basic

namespace CppUtil.IdMgr
open CppUtil

inductive TLoc where
  | fresh
  /-- about to `load` slot `id` -/
  | pLoad (id : Nat)
  /-- about to `exchange(true)` on slot `id` -/
  | pXchg (id : Nat)
  /-- running with this ID, heartbeat issued -/
  | owner (id : Nat)
  /-- thread-exit cleanup: first / second step still to do -/
  | exit1 (id : Nat)
  | exit2 (id : Nat)
  | dead
  deriving DecidableEq, Repr, Inhabited

structure St where
  slots : List Bool := []
  threads : List TLoc := []
  /-- heartbeat token of thread `t` is unexpired -/
  alive : List Bool := []
  deriving DecidableEq, Repr, Inhabited

def mkSt (n nthreads : Nat) : St :=
  { slots := List.replicate n false, threads := List.replicate nthreads .fresh,
    alive := List.replicate nthreads false }

/-- `if (++id >= kMaxThreadNum) id = 0` -/
def nextId (n id : Nat) : Nat := if id + 1 ≥ n then 0 else id + 1

def setT (s : St) (t : Nat) (l : TLoc) : St := { s with threads := s.threads.set t l }

inductive Act where
  /-- first call of GetHeartBeater: `id = hash % N`, then `++id` -/
  | begin (t : Nat) (start : Nat)
  /-- next atomic step of the claim loop or of the exit path -/
  | atom (t : Nat)
  /-- the thread stops running user code: thread-local destructors start -/
  | beginExit (t : Nat)
  deriving Repr, Inhabited

/-- `expireFirst` = the exit path expires the heartbeat before it clears the reservation flag -/
def step (n : Nat) (expireFirst : Bool) (s : St) : Act → Option (St × Option Ev)
  | .begin t start =>
    match s.threads[t]? with
    | some .fresh => some (setT s t (.pLoad (nextId n (start % n))), none)
    | _ => none
  | .beginExit t =>
    match s.threads[t]? with
    | some (.owner id) => some (setT s t (.exit1 id), none)
    | some .fresh => some (setT s t .dead, none)
    | _ => none
  | .atom t =>
    match s.threads[t]? with
    | some (.pLoad id) =>
      let v := s.slots.getD id false
      let ev : Ev := { op := .load, loc := s!"I{id}", mo := .rlx, rd := if v then 1 else 0, wr := if v then 1 else 0 }
      if v then some (setT s t (.pLoad (nextId n id)), some ev) else some (setT s t (.pXchg id), some ev)
    | some (.pXchg id) =>
      let old := s.slots.getD id false
      let ev : Ev := { op := .xchg, loc := s!"I{id}", mo := .rlx, rd := if old then 1 else 0, wr := 1 }
      let s1 := { s with slots := s.slots.set id true }
      if old then some (setT s1 t (.pLoad (nextId n id)), some ev)
      else some ({ setT s1 t (.owner id) with alive := s1.alive.set t true }, some ev)
    | some (.exit1 id) =>
      if expireFirst then
        some ({ setT s t (.exit2 id) with alive := s.alive.set t false }, none)
      else
        some ({ setT s t (.exit2 id) with slots := s.slots.set id false },
          some { op := .store, loc := s!"I{id}", mo := .rlx, rd := 0, wr := 0 })
    | some (.exit2 id) =>
      if expireFirst then
        some ({ setT s t .dead with slots := s.slots.set id false },
          some { op := .store, loc := s!"I{id}", mo := .rlx, rd := 0, wr := 0 })
      else
        some ({ setT s t .dead with alive := s.alive.set t false }, none)
    | _ => none

def run (n : Nat) (ef : Bool) (s : St) : List Act → Option St
  | [] => some s
  | a :: as =>
    match step n ef s a with
    | some (s', _) => run n ef s' as
    | none => none

/-- the ID a thread holds while it runs user code -/
def TLoc.id? : TLoc → Option Nat
  | .owner id => some id
  | _ => none

/-- the slot a thread has reserved (from the claiming exchange until the releasing store) -/
def reserves (expireFirst : Bool) : TLoc → Option Nat
  | .owner id => some id
  | .exit1 id => some id
  | .exit2 id => if expireFirst then some id else none
  | _ => none

end CppUtil.IdMgr
