/-
  The epoch protocol as an interleaving transition system: any number of worker threads that claim
  an ID (`IdMgr.step`), create and destroy epoch guards and exit, and one coordinator that calls
  `ForwardGlobalEpoch`, each advancing by one atomic step of the C++ code at a time.

  shared memory   `ids` (reservation flags, heartbeat tokens), `G` (global_epoch_), `M` (min_epoch_),
                  `E[id]` (tls_fields_[id].epoch.entered_, `sizeMax` = none),
                  `H[id]` (tls_fields_[id].heartbeat: the thread whose token it refers to)
  worker `t`      CreateEpochGuard = `bindChk` (heartbeat.expired()) → [`bindAsg` (heartbeat = …)] →
                  `entL` (load G) → `entS v` (store E[id]) → `guarded v`; ~EpochGuard = store E[id] := max
  coordinator     `idle` → load G → for every slot: `scanChk` (expired()) → [`scanLoad` (load E[i])] →
                  sort/unique → `storeG` → `storeM`
  ghosts          `must`  = the guards that were complete when the running forward started and have not been
                            destroyed since;  `quiet` = no guard existed / was being created at that start
                            and none has been begun since;  `fwds` = completed forwards.

  One guard per thread at a time (a second `create` while one is held is not a step of this model — that
  case is known finding F10), one coordinator.  The model is executable; the driver runs it in lockstep
  with the thread-level interpreter (`Model/EpochLock.lean`) on every replayed implementation trace.
  No Mathlib.
-/
import CppUtil.Model.IdMgr
import CppUtil.Model.Epoch

namespace CppUtil.EpochProto
open CppUtil CppUtil.IdMgr CppUtil.Epoch

inductive WPc where
  | idle | bindChk | bindAsg | entL | entS (v : Nat) | guarded (e : Nat)
  deriving DecidableEq, Repr, Inhabited

inductive CPc where
  | idle
  | scanChk (cur i : Nat) (coll : List Nat)
  | scanLoad (cur i : Nat) (coll : List Nat)
  | storeG (cur : Nat) (list : List Nat)
  | storeM (cur : Nat) (list : List Nat)
  deriving DecidableEq, Repr, Inhabited

structure St where
  ids : IdMgr.St := {}
  G : Nat := 0
  M : Nat := 0
  E : List Nat := []
  H : List (Option Nat) := []
  w : List WPc := []
  c : CPc := .idle
  must : List (Nat × Nat × Nat) := []
  quiet : Bool := false
  fwds : Nat := 0
  deriving DecidableEq, Repr, Inhabited

def mkSt (g0 n nthreads : Nat) : St :=
  { ids := IdMgr.mkSt n nthreads, G := g0, M := g0
    E := List.replicate n sizeMax, H := List.replicate n none, w := List.replicate nthreads .idle }

inductive Act where
  /-- a step of the IDManager (claim loop, exit path) -/
  | id (a : IdMgr.Act)
  /-- thread `t` enters CreateEpochGuard (it already has its ID) -/
  | create (t : Nat)
  /-- next atomic step of thread `t` inside CreateEpochGuard / ~EpochGuard -/
  | wstep (t : Nat)
  /-- next atomic step of the coordinator inside ForwardGlobalEpoch -/
  | fwd
  deriving Repr, Inhabited

/-- `tls_fields_[slot].heartbeat.expired()` -/
def expired (s : St) (slot : Nat) : Bool :=
  match s.H.getD slot none with
  | none => true
  | some t => !(s.ids.alive.getD t false)

def wpc (s : St) (t : Nat) : WPc := s.w.getD t .idle

def ownId (s : St) (t : Nat) : Option Nat :=
  match s.ids.threads[t]? with
  | some (.owner id) => some id
  | _ => none

/-- loop head of `CollectProtectedEpochs`: next slot, or sort/unique and go on to the two stores -/
def afterScan (n cur i : Nat) (coll : List Nat) : CPc :=
  if i < n then .scanChk cur i coll else .storeG cur (sortDescDedup coll)

/-- the complete guards: (thread, slot, entered epoch) -/
def guardsNow (s : St) : List (Nat × Nat × Nat) :=
  (List.range s.w.length).filterMap fun t =>
    match ownId s t, wpc s t with
    | some id, .guarded e => some (t, id, e)
    | _, _ => none

/-- a step of the IDManager part -/
def idStep (n : Nat) (ef : Bool) (s : St) (a : IdMgr.Act) : Option St :=
  match IdMgr.step n ef s.ids a with
  | some (ids, _) => some { s with ids := ids }
  | none => none

def step (n : Nat) (ef : Bool) (s : St) : Act → Option St
  | .id (.beginExit t) =>
    -- guards are destroyed before the thread-local destructors run
    if wpc s t = .idle then idStep n ef s (.beginExit t) else none
  | .id a => idStep n ef s a
  | .create t =>
    match ownId s t with
    | some _ => if wpc s t = .idle then some { s with w := s.w.set t .bindChk, quiet := false } else none
    | none => none
  | .wstep t =>
    match ownId s t with
    | none => none
    | some id =>
      match wpc s t with
      | .idle => none
      | .bindChk => some { s with w := s.w.set t (if expired s id then .bindAsg else .entL) }
      | .bindAsg => some { s with H := s.H.set id (some t), w := s.w.set t .entL }
      | .entL => some { s with w := s.w.set t (.entS s.G) }
      | .entS v => some { s with E := s.E.set id v, w := s.w.set t (.guarded v) }
      | .guarded _ =>
        some { s with E := s.E.set id sizeMax, w := s.w.set t .idle, must := s.must.filter (fun g => g.1 != t) }
  | .fwd =>
    match s.c with
    | .idle =>
      some { s with c := afterScan n s.G 0 [s.G + 1, s.G], must := guardsNow s, quiet := s.w.all (· == .idle) }
    | .scanChk cur i coll =>
      some { s with c := if expired s i then afterScan n cur (i + 1) coll else .scanLoad cur i coll }
    | .scanLoad cur i coll =>
      let v := s.E.getD i sizeMax
      some { s with c := afterScan n cur (i + 1) (if v < sizeMax then coll ++ [v] else coll) }
    | .storeG cur list => some { s with G := cur + 1, c := .storeM cur list }
    | .storeM _ list => some { s with M := list.getLast?.getD 0, c := .idle, fwds := s.fwds + 1 }

def run (n : Nat) (ef : Bool) (s : St) : List Act → Option St
  | [] => some s
  | a :: as =>
    match step n ef s a with
    | some s' => run n ef s' as
    | none => none

end CppUtil.EpochProto
