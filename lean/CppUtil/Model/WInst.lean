/-
  The two word-lock classes as instances of `WParams`.
  The *expressions* below are transcribed by hand from
  `src/lock/pessimistic_lock.cpp` / `src/lock/optimistic_lock.cpp`; the constants,
  memory orders and retry bound they mention come from the generated `Gen` modules.
  The correspondence check compares every value these expressions produce with the
  value the compiled C++ produced at the same step.
-/
import CppUtil.Model.WLock

namespace CppUtil.WLock
open CppUtil

/-- constants of `pessimistic_lock.cpp` (anonymous namespace) -/
structure PessConsts where
  kNoLocks : Word
  kSLock : Word
  kSIXLock : Word
  kXLock : Word
  kXMask : Word
  deriving Repr, DecidableEq

/-- constants of `optimistic_lock.cpp` (anonymous namespace) -/
structure OptConsts where
  kNoLocks : Word
  kSLock : Word
  kSIXLock : Word
  kXLock : Word
  kVersionMask : Word
  kAllLockMask : Word
  kXMask : Word
  kSMask : Word
  kSAndSIXMask : Word
  kXAndVersionMask : Word
  deriving Repr, DecidableEq

/-- zero-extension of a 32-bit version to the word (`uint32_t` → `uint64_t`) -/
def zext (v : BitVec 32) : Word := v.zeroExtend 64

/-- truncation `static_cast<uint32_t>(w)` -/
def trunc (w : Word) : BitVec 32 := w.truncate 32

def pessParams (C : PessConsts) (ord : WOrders) (retry : Nat) : WParams where
  lockGuard := fun m cur =>
    match m with
    | .S => (cur &&& C.kXLock) == C.kNoLocks
    | .SIX => (cur &&& C.kXMask) == C.kNoLocks
    | .X => cur == C.kNoLocks
  lockUpd := fun m cur =>
    match m with
    | .S => cur + C.kSLock
    | .SIX => cur ||| C.kSIXLock
    | .X => cur ||| C.kXLock
  relSArg := C.kSLock
  relSIXArg := C.kSIXLock
  relXVal := fun _ => C.kNoLocks
  upgGuard := fun cur => cur == C.kSIXLock
  upgUpd := fun _ => C.kXLock
  dngVal := fun _ => C.kSIXLock
  -- the optimistic entry points do not exist in this class; never started by a client
  noX := fun cur => (cur &&& C.kXLock) == C.kNoLocks
  anyLock := fun cur => cur != 0
  prepUpd := fun cur => cur + C.kSLock
  tryGuard := fun _ _ => false
  tryVerNe := fun _ _ _ => true
  tryUpd := fun m cur =>
    match m with
    | .S => cur + C.kSLock
    | .SIX => cur ||| C.kSIXLock
    | .X => cur ||| C.kXLock
  verOf := fun _ => 0
  castVer := fun _ => 0
  retryNum := retry
  ord := ord

def optParams (C : OptConsts) (ord : WOrders) (retry : Nat) : WParams where
  lockGuard := fun m cur =>
    match m with
    | .S => (cur &&& C.kXLock) == C.kNoLocks
    | .SIX => (cur &&& C.kXMask) == C.kNoLocks
    | .X => (cur &&& C.kAllLockMask) == C.kNoLocks
  lockUpd := fun m cur =>
    match m with
    | .S => cur + C.kSLock
    | .SIX => cur ||| C.kSIXLock
    | .X => cur ||| C.kXLock
  relSArg := C.kSLock
  relSIXArg := C.kSIXLock
  relXVal := fun nv => zext nv
  upgGuard := fun cur => (cur &&& C.kSMask) == C.kNoLocks
  upgUpd := fun cur => cur ^^^ C.kXMask
  dngVal := fun nv => zext nv ||| C.kSIXLock
  noX := fun cur => (cur &&& C.kXLock) == C.kNoLocks
  anyLock := fun cur => (cur &&& C.kAllLockMask) != 0
  prepUpd := fun cur => cur + C.kSLock
  tryGuard := fun m cur =>
    match m with
    | .S => (cur &&& C.kXLock) == C.kNoLocks
    | .SIX => (cur &&& C.kXMask) == C.kNoLocks
    | .X => (cur &&& C.kAllLockMask) == C.kNoLocks
  tryVerNe := fun m cur ver =>
    match m with
    | .S => (cur &&& C.kVersionMask) != zext ver
    | .SIX => (cur &&& C.kVersionMask) != zext ver
    | .X => (cur &&& C.kXAndVersionMask) != zext ver
  tryUpd := fun m cur =>
    match m with
    | .S => cur + C.kSLock
    | .SIX => cur ||| C.kSIXLock
    | .X => cur ||| C.kXLock
  verOf := fun cur => trunc (cur &&& C.kVersionMask)
  castVer := fun cur => trunc cur
  retryNum := retry
  ord := ord

end CppUtil.WLock
