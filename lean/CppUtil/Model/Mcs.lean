/-
  MCSLock: step-faithful small-step model.  One agent = the life of one request / guard; every
  atomic operation of `src/lock/mcs_lock.cpp` is one `atom` step; queue nodes are numbered in
  allocation order and appear in words as their number (pointer field).  The model follows the
  *repaired* UnlockS (F2) and, depending on `publishStore`, either the repaired or the original way
  LockSIX / LockX publish the predecessor flags (F3), so that the original defect is expressible.
  No Mathlib.
-/
import CppUtil.Model.McsParams

namespace CppUtil.Mcs
open CppUtil

structure Params where
  C : McsConsts
  ord : String → MO
  /-- LockSIX/LockX publish with a plain store (original code) instead of an RMW (repaired) -/
  publishStore : Bool

inductive Ref where
  | lock (k : Nat)
  | node (k : Nat)
  deriving DecidableEq, Repr, Inhabited

def Ref.name : Ref → String
  | .lock k => s!"L{k}"
  | .node k => s!"N{k}"

inductive Ph where
  | load0 | lockLoad | cas | spinNext | handoff
  deriving DecidableEq, Repr, Inhabited

inductive Loc where
  | idle
  | sStore | sLoad | sCas | sSpinLock | sSpinNext | sSpinNode
  | xStore (m : Mode) | xXchg (m : Mode) | xPublish (m : Mode) | xLink (m : Mode) | xSpin (m : Mode)
  | held (m : Mode)
  | rel (m : Mode) (p : Ph)
  | upg (p : Ph)
  | dng (p : Ph)
  | done
  deriving DecidableEq, Repr, Inhabited

structure Agent where
  tid : Nat := 0
  lk : Nat := 0
  loc : Loc := .idle
  qnode : Nat := 0
  cur : Word := 0
  nxt : Word := 0
  deriving DecidableEq, Repr, Inhabited

structure St where
  locks : List Word := []
  /-- node k (1-based) is `nodes[k-1]`; `none` = freed -/
  nodes : List (Option Word) := []
  /-- `tls_node_` of each thread -/
  tls : List (Option Nat) := []
  agents : List Agent := []
  /-- ghost: accesses to freed nodes seen so far -/
  uaf : Nat := 0
  deriving Repr, Inhabited

def mkSt (nlocks nthreads : Nat) : St :=
  { locks := List.replicate nlocks 0, tls := List.replicate nthreads none }

def Loc.grant? : Loc → Option Mode
  | .held m => some m
  | .upg _ => some .SIX
  | .dng _ => some .X
  | _ => none

def Loc.stable : Loc → Bool
  | .idle => true | .held _ => true | .done => true | _ => false

def rd (s : St) : Ref → Word
  | .lock k => s.locks.getD k 0
  | .node k => ((s.nodes.getD (k - 1) none).getD 0)

def nodeLive (s : St) (k : Nat) : Bool := k ≥ 1 && (s.nodes.getD (k - 1) none).isSome

def wr (s : St) (r : Ref) (v : Word) : St :=
  match r with
  | .lock k => { s with locks := s.locks.set k v }
  | .node k => if nodeLive s k then { s with nodes := s.nodes.set (k - 1) (some v) } else { s with uaf := s.uaf + 1 }

/-- count an access to a node that is not live -/
def touch (s : St) : Ref → St
  | .lock _ => s
  | .node k => if nodeLive s k then s else { s with uaf := s.uaf + 1 }

def ptrOf (P : Params) (w : Word) : Nat := (w &&& P.C.kPtrMask).toNat
def ofNode (k : Nat) : Word := BitVec.ofNat 64 k

def setAgent (s : St) (i : Nat) (a : Agent) : St := { s with agents := s.agents.set i a }

/-- `tls_node_ ? tls_node_.release() : new MCSLock{}` -/
def takeNode (s : St) (tid : Nat) : St × Nat × List String :=
  match s.tls.getD tid none with
  | some k => ({ s with tls := s.tls.set tid none }, k, [])
  | none =>
    let k := s.nodes.length + 1
    ({ s with nodes := s.nodes ++ [some 0] }, k, [s!"NA{k}"])

/-- `tls_node_.reset(qnode)` : cache `k`, delete what was cached before -/
def cacheNode (s : St) (tid k : Nat) : St × List String :=
  match s.tls.getD tid none with
  | some old => ({ s with tls := s.tls.set tid (some k), nodes := s.nodes.set (old - 1) none }, [s!"NF{old}"])
  | none => ({ s with tls := s.tls.set tid (some k) }, [])

/-- thread exit: the cached node is deleted -/
def threadExit (s : St) (tid : Nat) : St × List String :=
  match s.tls.getD tid none with
  | some old => ({ s with tls := s.tls.set tid none, nodes := s.nodes.set (old - 1) none }, [s!"NF{old}"])
  | none => (s, [])

def flagOf (P : Params) : Mode → Word
  | .S => P.C.kSLock | .SIX => P.C.kSIXLock | .X => P.C.kXLock

def mName : Mode → String
  | .S => "S" | .SIX => "SIX" | .X => "X"

def mkEv (op : OpK) (r : Ref) (mo : MO) (rdv wrv : Word) (ok : Bool := true) (moF : MO := .rlx) : Ev :=
  { op := op, loc := r.name, mo := mo, moFail := moF, rd := rdv, wr := wrv, ok := ok }

/-- API entry: a new request of mode `m` on lock `lk` by thread `tid` (local code up to the first atomic op) -/
def spawnLock (s : St) (tid lk : Nat) (m : Mode) : St × Nat × List String :=
  let (s, q, toks) := takeNode s tid
  let a : Agent := { tid := tid, lk := lk, qnode := q,
                     loc := match m with | .S => .sStore | _ => .xStore m }
  ({ s with agents := s.agents ++ [a] }, s.agents.length, toks)

/-- API entry of destructor / conversions (local) -/
def beginRelease (s : St) (i tid : Nat) : St :=
  match s.agents[i]? with
  | some a =>
    match a.loc with
    | .held m => setAgent s i { a with tid := tid, loc := .rel m .load0 }
    | _ => s
  | none => s

def beginUpgrade (s : St) (i tid : Nat) : St :=
  match s.agents[i]? with
  | some a => if a.loc = .held .SIX then setAgent s i { a with tid := tid, loc := .upg .load0 } else s
  | none => s

def beginDowngrade (s : St) (i tid : Nat) : St :=
  match s.agents[i]? with
  | some a => if a.loc = .held .X then setAgent s i { a with tid := tid, loc := .dng .load0 } else s
  | none => s

/-- after a failed / successful look at the lock word inside the "I am the tail" loops -/
def tailLoop (P : Params) (a : Agent) (mk : Ph → Loc) : Loc :=
  if ptrOf P a.cur = a.qnode then mk .cas else mk .spinNext

/-- One atomic step of agent `i`.  Returns new state, the event and local tokens (node alloc / free). -/
def atom (P : Params) (s : St) (i : Nat) : Option (St × Ev × List String) :=
  match s.agents[i]? with
  | none => none
  | some a =>
  let C := P.C
  let L := Ref.lock a.lk
  let Q := Ref.node a.qnode
  match a.loc with
  | .idle => none
  | .held _ => none
  | .done => none
  -- ------------------------------------------------------------ LockS
  | .sStore =>
    let s1 := wr s Q C.kNull
    some (setAgent s1 i { a with loc := .sLoad }, mkEv .store Q (P.ord "lockS.store") 0 C.kNull, [])
  | .sLoad =>
    let v := rd s L
    some (setAgent s i { a with loc := .sCas, cur := v }, mkEv .load L (P.ord "lockS.load") v v, [])
  | .sCas =>
    let cur := rd s L
    if a.cur ≠ 0 then
      if cur = a.cur then
        let nw := a.cur + C.kSLock
        let s1 := wr s L nw
        -- joined the tail group: give the unused node back to the cache, continue on the group's node
        let (s2, toks) := cacheNode s1 a.tid a.qnode
        let tp := a.cur &&& C.kPtrMask
        let a' := { a with qnode := tp.toNat, nxt := tp,
                           loc := if (a.cur &&& C.kXMask) ≠ 0 then .sSpinLock else .held .S }
        some (setAgent s2 i a', mkEv .cas L (P.ord "lockS.casJoinS") cur nw true (P.ord "lockS.casJoinF"), toks)
      else
        some (setAgent s i { a with cur := cur },
              mkEv .cas L (P.ord "lockS.casJoinS") cur cur false (P.ord "lockS.casJoinF"), [])
    else
      if cur = 0 then
        let nw := ofNode a.qnode ||| C.kSLock
        let s1 := wr s L nw
        some (setAgent s1 i { a with loc := .held .S },
              mkEv .cas L (P.ord "lockS.casNewS") cur nw true (P.ord "lockS.casNewF"), [])
      else
        some (setAgent s i { a with cur := cur },
              mkEv .cas L (P.ord "lockS.casNewS") cur cur false (P.ord "lockS.casNewF"), [])
  | .sSpinLock =>
    let v := rd s L
    let ev := mkEv .load L (P.ord "lockS.spinLock") v v
    if (v &&& C.kPtrMask) ≠ a.nxt then some (setAgent s i { a with cur := v, loc := .sSpinNext }, ev, [])
    else if (v &&& C.kXMask) = C.kNoLocks then some (setAgent s i { a with cur := v, loc := .held .S }, ev, [])
    else some (setAgent s i { a with cur := v }, ev, [])
  | .sSpinNext =>
    let s0 := touch s Q
    let v := rd s Q
    let p := v &&& C.kPtrMask
    let ev := mkEv .load Q (P.ord "lockS.spinNext") v v
    if p ≠ 0 then some (setAgent s0 i { a with nxt := p, loc := .sSpinNode }, ev, [])
    else some (setAgent s0 i { a with nxt := p }, ev, [])
  | .sSpinNode =>
    let N := Ref.node a.nxt.toNat
    let s0 := touch s N
    let v := rd s N
    let ev := mkEv .load N (P.ord "lockS.spinNode") v v
    if (v &&& C.kXMask) = C.kNoLocks then some (setAgent s0 i { a with loc := .held .S }, ev, [])
    else some (s0, ev, [])
  -- ------------------------------------------------------------ LockSIX / LockX
  | .xStore m =>
    let s1 := wr s Q C.kXLock
    some (setAgent s1 i { a with loc := .xXchg m }, mkEv .store Q (P.ord s!"lock{mName m}.store") 0 C.kXLock, [])
  | .xXchg m =>
    let old := rd s L
    let nw := ofNode a.qnode ||| flagOf P m
    let s1 := wr s L nw
    some (setAgent s1 i { a with cur := old, loc := .xPublish m }, mkEv .xchg L (P.ord s!"lock{mName m}.xchg") old nw, [])
  | .xPublish m =>
    let flags := a.cur &&& C.kLockMask
    let nextLoc := if (a.cur &&& C.kPtrMask) ≠ 0 then Loc.xLink m else Loc.held m
    if P.publishStore then
      let s1 := wr s Q flags
      some (setAgent s1 i { a with loc := nextLoc }, mkEv .store Q (P.ord s!"lock{mName m}.publish") 0 flags, [])
    else
      let old := rd s Q
      let nw := old ^^^ (C.kXLock ^^^ flags)
      let s1 := wr s Q nw
      some (setAgent s1 i { a with loc := nextLoc }, mkEv .fxor Q (P.ord s!"lock{mName m}.publish") old nw, [])
  | .xLink m =>
    let T := Ref.node (ptrOf P a.cur)
    let old := rd s T
    let nw := old + ofNode a.qnode
    let s1 := wr s T nw
    some (setAgent s1 i { a with loc := .xSpin m }, mkEv .fadd T (P.ord s!"lock{mName m}.link") old nw, [])
  | .xSpin m =>
    let s0 := touch s Q
    let v := rd s Q
    let ev := mkEv .load Q (P.ord s!"lock{mName m}.spin") v v
    let ok : Bool := match m with
      | .X => (v &&& C.kLockMask) == C.kNoLocks
      | _ => (v &&& C.kXMask) == C.kNoLocks
    if ok then some (setAgent s0 i { a with loc := .held m }, ev, []) else some (s0, ev, [])
  -- ------------------------------------------------------------ UnlockS / UnlockSIX / UnlockX
  | .rel m .load0 =>
    let s0 := touch s Q
    let v := rd s Q
    let ev := mkEv .load Q (P.ord s!"unlock{mName m}.load") v v
    match m with
    | .S =>
      let p := v &&& C.kPtrMask
      some (setAgent s0 i { a with nxt := p, loc := if p = 0 then .rel m .lockLoad else .rel m .handoff }, ev, [])
    | .SIX =>
      if (v &&& C.kSMask) = C.kNoLocks then
        some (setAgent s0 i { a with nxt := v, loc := if v = 0 then .rel m .lockLoad else .rel m .handoff }, ev, [])
      else some (setAgent s0 i { a with nxt := v }, ev, [])
    | .X =>
      some (setAgent s0 i { a with nxt := v, loc := if v = 0 then .rel m .lockLoad else .rel m .handoff }, ev, [])
  | .rel m .lockLoad =>
    let v := rd s L
    let a' := { a with cur := v }
    some (setAgent s i { a' with loc := tailLoop P a' (.rel m) }, mkEv .load L (P.ord s!"unlock{mName m}.lockLoad") v v, [])
  | .rel m .cas =>
    let cur := rd s L
    -- which of the two CAS sites is executed depends on the expected value
    let dec : Bool := match m with
      | .S => ((a.cur - C.kSLock) &&& (C.kSMask ||| C.kSIXLock)) ≠ 0
      | _ => (a.cur &&& C.kSMask) ≠ 0
    let desired : Word := if dec then (match m with
        | .S => a.cur - C.kSLock
        | .SIX => a.cur ^^^ C.kSIXLock
        | .X => a.cur ^^^ C.kXLock) else C.kNull
    let site := if dec then "casDec" else "casNull"
    let moS := P.ord s!"unlock{mName m}.{site}S"
    let moF := P.ord s!"unlock{mName m}.{site}F"
    if cur = a.cur then
      let s1 := wr s L desired
      if dec then
        some (setAgent s1 i { a with loc := .done }, mkEv .cas L moS cur desired true moF, [])
      else
        let (s2, toks) := cacheNode s1 a.tid a.qnode
        some (setAgent s2 i { a with loc := .done }, mkEv .cas L moS cur desired true moF, toks)
    else
      let a' := { a with cur := cur }
      some (setAgent s i { a' with loc := tailLoop P a' (.rel m) }, mkEv .cas L moS cur cur false moF, [])
  | .rel m .spinNext =>
    let s0 := touch s Q
    let v := rd s Q
    let p := v &&& C.kPtrMask
    let ev := mkEv .load Q (P.ord s!"unlock{mName m}.spinNext") v v
    some (setAgent s0 i { a with nxt := p, loc := if p ≠ 0 then .rel m .handoff else .rel m .spinNext }, ev, [])
  | .rel m .handoff =>
    let N := Ref.node (ptrOf P a.nxt)
    let s0 := touch s N
    let old := rd s0 N
    let nw := match m with
      | .S => old - C.kSLock
      | .SIX => old ^^^ C.kSIXLock
      | .X => old ^^^ C.kXLock
    let s1 := wr s0 N nw
    let last : Bool := match m with
      | .S => (old &&& C.kLockMask) = C.kSLock
      | _ => (old &&& C.kSMask) = C.kNoLocks
    let op := match m with | .S => OpK.fsub | _ => OpK.fxor
    let ev := mkEv op N (P.ord s!"unlock{mName m}.handoff") old nw
    if last then
      let (s2, toks) := cacheNode s1 a.tid a.qnode
      some (setAgent s2 i { a with loc := .done }, ev, toks)
    else some (setAgent s1 i { a with loc := .done }, ev, [])
  -- ------------------------------------------------------------ UpgradeToX
  | .upg .load0 =>
    let s0 := touch s Q
    let v := rd s Q
    let ev := mkEv .load Q (P.ord "upg.load") v v
    if (v &&& C.kSMask) = C.kNoLocks then
      some (setAgent s0 i { a with nxt := v, loc := if v = 0 then .upg .lockLoad else .upg .handoff }, ev, [])
    else some (setAgent s0 i { a with nxt := v }, ev, [])
  | .upg .lockLoad =>
    let v := rd s L
    let a' := { a with cur := v }
    some (setAgent s i { a' with loc := tailLoop P a' .upg }, mkEv .load L (P.ord "upg.lockLoad") v v, [])
  | .upg .cas =>
    let cur := rd s L
    if cur = a.cur then
      let nw := a.cur ^^^ C.kXMask
      some (setAgent (wr s L nw) i { a with loc := .held .X }, mkEv .cas L (P.ord "upg.casS") cur nw true (P.ord "upg.casF"), [])
    else
      let a' := { a with cur := cur }
      some (setAgent s i { a' with loc := tailLoop P a' .upg }, mkEv .cas L (P.ord "upg.casS") cur cur false (P.ord "upg.casF"), [])
  | .upg .spinNext =>
    let s0 := touch s Q
    let v := rd s Q
    let p := v &&& C.kPtrMask
    some (setAgent s0 i { a with nxt := p, loc := if p ≠ 0 then .upg .handoff else .upg .spinNext },
          mkEv .load Q (P.ord "upg.spinNext") v v, [])
  | .upg .handoff =>
    let N := Ref.node (ptrOf P a.nxt)
    let s0 := touch s N
    let old := rd s0 N
    let nw := old ^^^ C.kXMask
    some (setAgent (wr s0 N nw) i { a with loc := .held .X }, mkEv .fxor N (P.ord "upg.handoff") old nw, [])
  -- ------------------------------------------------------------ DowngradeToSIX
  | .dng .load0 =>
    let s0 := touch s Q
    let v := rd s Q
    let p := v &&& C.kPtrMask
    some (setAgent s0 i { a with nxt := p, loc := if p = 0 then .dng .lockLoad else .dng .handoff },
          mkEv .load Q (P.ord "dng.load") v v, [])
  | .dng .lockLoad =>
    let v := rd s L
    let a' := { a with cur := v }
    some (setAgent s i { a' with loc := tailLoop P a' .dng }, mkEv .load L (P.ord "dng.lockLoad") v v, [])
  | .dng .cas =>
    let cur := rd s L
    if cur = a.cur then
      let nw := a.cur ^^^ C.kXMask
      some (setAgent (wr s L nw) i { a with loc := .held .SIX }, mkEv .cas L (P.ord "dng.casS") cur nw true (P.ord "dng.casF"), [])
    else
      let a' := { a with cur := cur }
      some (setAgent s i { a' with loc := tailLoop P a' .dng }, mkEv .cas L (P.ord "dng.casS") cur cur false (P.ord "dng.casF"), [])
  | .dng .spinNext =>
    let s0 := touch s Q
    let v := rd s Q
    let p := v &&& C.kPtrMask
    some (setAgent s0 i { a with nxt := p, loc := if p ≠ 0 then .dng .handoff else .dng .spinNext },
          mkEv .load Q (P.ord "dng.spinNext") v v, [])
  | .dng .handoff =>
    let N := Ref.node (ptrOf P a.nxt)
    let s0 := touch s N
    let old := rd s0 N
    let nw := old ^^^ C.kXMask
    some (setAgent (wr s0 N nw) i { a with loc := .held .SIX }, mkEv .fxor N (P.ord "dng.handoff") old nw, [])

/-! ### top-level transition system (what the theorems quantify over) -/

inductive Act where
  /-- API entry of LockS / LockSIX / LockX by thread `tid` on lock `lk` -/
  | spawn (tid lk : Nat) (m : Mode)
  /-- one atomic operation of request `i` -/
  | atom (i : Nat)
  /-- the guard of request `i` is destroyed / overwritten by thread `tid` -/
  | release (i tid : Nat)
  | upgrade (i tid : Nat)
  | downgrade (i tid : Nat)
  /-- thread exit: the thread-local spare node is deleted -/
  | exit (tid : Nat)
  deriving Repr, DecidableEq

def step (P : Params) (s : St) : Act → St
  | .spawn tid lk m => (spawnLock s tid lk m).1
  | .atom i => match atom P s i with
    | some (s', _, _) => s'
    | none => s
  | .release i tid => beginRelease s i tid
  | .upgrade i tid => beginUpgrade s i tid
  | .downgrade i tid => beginDowngrade s i tid
  | .exit tid => (threadExit s tid).1

def run (P : Params) (s : St) (acts : List Act) : St := acts.foldl (step P) s

end CppUtil.Mcs
