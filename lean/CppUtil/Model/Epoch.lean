/-
  EpochManager building blocks as pure functions: the linked list of 256-epoch nodes, the lookup of a
  per-epoch vector, the sorted/unique collection of protected epochs, and the pruning walk
  (`RemoveOutDatedLists`), transcribed from `src/thread/epoch_manager.cpp` with the same control
  flow.  Used by the thread-level interpreter (`TClient`) and by the sequential proofs.  No Mathlib.
-/
import CppUtil.Core.Basic

namespace CppUtil.Epoch
open CppUtil

structure Consts where
  kCapacity : Nat
  kInitialEpoch : Nat
  kMinEpoch : Nat
  deriving Repr, DecidableEq

/-- `std::numeric_limits<size_t>::max()` -/
def sizeMax : Nat := 2 ^ 64 - 1

structure PNode where
  id : Nat
  /-- `upper_epoch_` -/
  upper : Nat
  /-- `epoch_lists_`: lower index ↦ vector (absent = empty vector) -/
  lists : List (Nat × List Nat) := []
  deriving Repr, DecidableEq, Inhabited

def lowerOf (C : Consts) (e : Nat) : Nat := e % C.kCapacity
def upperOf (C : Consts) (e : Nat) : Nat := e - e % C.kCapacity

/-- `ProtectedNode::GetProtectedEpochs`: walk to the first node whose `upper_epoch_` is not greater
    than the epoch's upper bits.  `none` = the walk runs off the end of the list (null dereference). -/
def findNode (C : Consts) (e : Nat) : List PNode → Option PNode
  | [] => none
  | n :: rest => if n.upper > upperOf C e then findNode C e rest else some n

def vecOf (n : PNode) (lower : Nat) : List Nat :=
  match n.lists.find? (·.1 == lower) with
  | some (_, v) => v
  | none => []

def getList (C : Consts) (e : Nat) (nodes : List PNode) : Option (List Nat) :=
  (findNode C e nodes).map fun n => vecOf n (lowerOf C e)

/-- write the vector of epoch `e` in the node chosen by `findNode` -/
def setList (C : Consts) (e : Nat) (v : List Nat) : List PNode → List PNode
  | [] => []
  | n :: rest =>
    if n.upper > upperOf C e then n :: setList C e v rest
    else { n with lists := (n.lists.filter (·.1 != lowerOf C e)) ++ [(lowerOf C e, v)] } :: rest

/-- insertion into a descending list without duplicates -/
def insertDesc (x : Nat) : List Nat → List Nat
  | [] => [x]
  | y :: ys => if x > y then x :: y :: ys else if x = y then y :: ys else y :: insertDesc x ys

/-- `std::sort(greater) ; std::unique ; erase` -/
def sortDescDedup (l : List Nat) : List Nat := l.foldl (fun acc x => insertDesc x acc) []

/-- inner `do … while` of RemoveOutDatedLists: advance the iterator to the next protected epoch whose
    upper bits differ from `ub`; returns the new `protected_epoch` value and the remaining iterator -/
def skipSame (C : Consts) (ub : Nat) : List Nat → Nat × List Nat
  | [] => (C.kMinEpoch, [])
  | p :: ps => if upperOf C p = ub then skipSame C ub ps else (upperOf C p, ps)

/-- The pruning walk.  `prevKept` = nodes already passed (newest first, reversed), `cur :: rest` = the
    part of the chain still to examine, `pe` = `protected_epoch`, `it` = remaining protected epochs
    *after* the current one.  Returns the new chain and the ids of the deleted nodes.
    The loop condition is `current->next != nullptr`: the oldest node is never examined.
    `fuel` bounds the non-progress branch (`prev == current` with a non-matching head), which the C++
    would spin in forever; running out of fuel is reported as `none`. -/
def prune (C : Consts) : Nat → List PNode → List PNode → Nat → List Nat → Option (List PNode × List Nat)
  | 0, _, _, _, _ => none
  | _, kept, [], _, _ => some (kept.reverse, [])
  | _, kept, [last], _, _ => some ((last :: kept).reverse, [])
  | fuel + 1, kept, cur :: nxt :: rest, pe, it =>
    if pe = cur.upper then
      -- still referred: skip it and search the next protected epoch
      let (pe', it') := skipSame C cur.upper it
      prune C fuel (cur :: kept) (nxt :: rest) pe' it'
    else
      match kept with
      | [] => prune C fuel [] (cur :: nxt :: rest) pe it   -- prev == current: no progress (spins)
      | _ =>
        match prune C fuel kept (nxt :: rest) pe it with
        | some (chain, freed) => some (chain, cur.id :: freed)
        | none => none

/-- `RemoveOutDatedLists(protected_epochs)` -/
def removeOutdated (C : Consts) (nodes : List PNode) (protectedEpochs : List Nat) : Option (List PNode × List Nat) :=
  match protectedEpochs with
  | [] => some (nodes, [])
  | p :: ps => prune C (2 * nodes.length + 4) [] nodes (upperOf C p) ps

/-- the coordinator-local part of `ForwardGlobalEpoch` between the scan and the two stores:
    sort/unique the collected epochs, write them as the vector of `next`, prune.  Returns the new
    chain, the published vector, and the ids of freed nodes (`none`: the C++ would not terminate or
    would dereference null). -/
def publish (C : Consts) (nodes : List PNode) (next : Nat) (collected : List Nat) :
    Option (List PNode × List Nat × List Nat) :=
  let v := sortDescDedup collected
  match findNode C next nodes with
  | none => none
  | some _ =>
    let nodes1 := setList C next v nodes
    match removeOutdated C nodes1 v with
    | some (chain, freed) => some (chain, v, freed)
    | none => none

/-- allocate a node when the next epoch starts a new range -/
def maybeNewNode (C : Consts) (nodes : List PNode) (next nextId : Nat) : List PNode × Bool :=
  if lowerOf C next = 0 then ({ id := nextId, upper := next } :: nodes, true) else (nodes, false)

def initNodes (C : Consts) : List PNode :=
  [{ id := 0, upper := C.kInitialEpoch, lists := [(lowerOf C C.kInitialEpoch, [C.kInitialEpoch])] }]

end CppUtil.Epoch
