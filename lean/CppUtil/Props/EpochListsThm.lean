/-
  Theorems about the epoch protocol with list nodes, for every interleaving (C17; progress for C16/C20),
  stated over runs of `EpochLists.lstep` from the initial state with the constants and the exit order read
  from the source (`Gen.epochConsts`, `Gen.heartbeatExpiresFirst`).
-/
import CppUtil.Proofs.EpochListsInv
import CppUtil.Gen.Thread

namespace CppUtil.Props
open CppUtil CppUtil.Epoch CppUtil.EpochProto CppUtil.EpochLists

theorem lists_goodConsts : GoodConsts Gen.epochConsts := ⟨by decide, by decide, by decide⟩

theorem lists_inv (n : Nat) (hn : 0 < n) (nthreads : Nat) (acts : List Act) (s : LSt)
    (h : lrun Gen.epochConsts n Gen.heartbeatExpiresFirst (mkL Gen.epochConsts n nthreads) acts = some s)
    (hfresh : s.stale = false) : LInv Gen.epochConsts n s := by
  have hef : Gen.heartbeatExpiresFirst = true := by decide
  rw [hef] at h
  exact linv_run lists_goodConsts hn acts _ s (linv_init _ lists_goodConsts n nthreads (by decide)) h hfresh

/-- **C17, all interleavings** (premise: no stale `EnterEpoch` store — known finding F6 — and one guard per
    thread at a time).  At every reachable state, for every complete guard with epoch `e`: the lookup that
    `GetProtectedEpochs` performs (`getList`, the walk of `ProtectedNode::GetProtectedEpochs`) finds a node and
    returns the vector published for `e`; that vector starts with `e`, is strictly descending, and contains
    `e − 1` when `e` is above the initial epoch. -/
theorem c17_protocol (n : Nat) (hn : 0 < n) (nthreads : Nat) (acts : List Act) (s : LSt)
    (h : lrun Gen.epochConsts n Gen.heartbeatExpiresFirst (mkL Gen.epochConsts n nthreads) acts = some s)
    (hfresh : s.stale = false) (t e : Nat) (hg : wpc s.p t = .guarded e) :
    getList Gen.epochConsts e s.nodes = some (s.pub e) ∧
    (s.pub e).head? = some e ∧ Desc (s.pub e) ∧ (Gen.epochConsts.kInitialEpoch < e → e - 1 ∈ s.pub e) := by
  have hI := lists_inv n hn nthreads acts s h hfresh
  obtain ⟨h1, h2, _⟩ := guard_list hI hg
  exact ⟨h1, h2⟩

/-- **… and stable**: whatever the coordinator and the other threads do afterwards (`more`), as long as the
    guard is there the lookup returns the very same vector — it is neither modified nor freed. -/
theorem c17_protocol_stable (n : Nat) (hn : 0 < n) (nthreads : Nat) (acts more : List Act) (s s2 : LSt)
    (h : lrun Gen.epochConsts n Gen.heartbeatExpiresFirst (mkL Gen.epochConsts n nthreads) acts = some s)
    (h2 : lrun Gen.epochConsts n Gen.heartbeatExpiresFirst s more = some s2)
    (hfresh : s2.stale = false) (t e : Nat) (hg : wpc s.p t = .guarded e) (hg2 : wpc s2.p t = .guarded e) :
    getList Gen.epochConsts e s2.nodes = some (s.pub e) := by
  have hef : Gen.heartbeatExpiresFirst = true := by decide
  have hs : s.stale = false := by
    cases hb : s.stale with
    | false => rfl
    | true => rw [lrun_stale_mono more s s2 h2 hb] at hfresh; cases hfresh
  have hI := lists_inv n hn nthreads acts s h hs
  rw [hef] at h2
  have hI2 := linv_run lists_goodConsts hn more s s2 hI h2 hfresh
  obtain ⟨_, _, hle⟩ := guard_list hI hg
  obtain ⟨g1, _, _⟩ := guard_list hI2 hg2
  rw [g1, (pub_run lists_goodConsts hn more s s2 hI h2 hfresh).1 e hle]

/-- the run in `c17_protocol_stable` really is a continuation -/
theorem lrun_append (C : Consts) (n : Nat) (ef : Bool) : ∀ (a1 a2 : List Act) (s : LSt),
    lrun C n ef s (a1 ++ a2) = (lrun C n ef s a1).bind fun s1 => lrun C n ef s1 a2
  | [], a2, s => by simp [lrun]
  | a :: a1, a2, s => by
    simp only [List.cons_append, lrun]
    split
    · exact lrun_append C n ef a1 a2 _
    · rfl

/-- **the coordinator's list handling never blocks** (C16 "reclamation can progress", C20 "the walk
    terminates", for every interleaving): at every state reachable without a stale store, the next step of
    ForwardGlobalEpoch exists — the node of the next epoch is found, the pruning walk terminates and stays on the
    chain — provided that step does not itself detect a stale store and the epoch counter does not overflow. -/
theorem c17_protocol_forward_enabled (n : Nat) (hn : 0 < n) (nthreads : Nat) (acts : List Act) (s : LSt)
    (h : lrun Gen.epochConsts n Gen.heartbeatExpiresFirst (mkL Gen.epochConsts n nthreads) acts = some s)
    (hfresh : s.stale = false) (hG : s.p.G + 1 < sizeMax)
    (hfr : ∀ cur i coll, s.p.c = .scanLoad cur i coll → staleAt s.p i cur = false) :
    ∃ s', lstep Gen.epochConsts n Gen.heartbeatExpiresFirst s .fwd = some s' ∧ s'.stale = false := by
  have hI := lists_inv n hn nthreads acts s h hfresh
  have hef : Gen.heartbeatExpiresFirst = true := by decide
  rw [hef]
  obtain ⟨s', h1, h2, _⟩ := fwd_enabled lists_goodConsts hn hI hG hfr
  exact ⟨s', h1, h2⟩

/-- the lists model is the protocol model plus lists: its runs project to runs of `EpochProto` -/
theorem lstep_projects (C : Consts) (n : Nat) (ef : Bool) (s s' : LSt) (a : Act) (h : lstep C n ef s a = some s') :
    EpochProto.step n ef s.p a = some s'.p := by
  unfold lstep at h
  split at h
  · cases h
  · rename_i p' hstep
    rw [hstep]
    split at h
    · cases h
    · cases a with
      | id a => simp only at h; cases h; rfl
      | create t => simp only at h; cases h; rfl
      | wstep t => simp only at h; cases h; rfl
      | fwd =>
        simp only at h
        have fin : ∀ st, finishScan C s p' st = some s' → s'.p = p' := by
          intro st hf
          unfold finishScan at hf
          split at hf
          · split at hf
            · cases hf; rfl
            · cases hf
          · cases hf; rfl
        split at h
        · cases h; rfl
        · rw [fin _ h]
        · rw [fin _ h]
        · cases h; rfl


/-! ### non-vacuity; pruning really happens; the premise is needed -/

def smallConsts : Consts := { kCapacity := 2, kInitialEpoch := 2, kMinEpoch := 0 }
def claim0 : List Act := [.id (.begin 0 0), .id (.atom 0), .id (.atom 0)]
def claim1 : List Act := [.id (.begin 1 0), .id (.atom 1), .id (.atom 1), .id (.atom 1)]
def guard (t : Nat) : List Act := [.create t, .wstep t, .wstep t, .wstep t, .wstep t]

/-- the hypotheses of `c17_protocol` are satisfiable (constants of the source): one forward, a guard, another
    forward; the guard (epoch 257) reads its own vector -/
theorem c17_protocol_nonvacuous :
    (lrun Gen.epochConsts 1 Gen.heartbeatExpiresFirst (mkL Gen.epochConsts 1 1)
      (claim0 ++ List.replicate 4 .fwd ++ guard 0 ++ List.replicate 5 .fwd)).map
      (fun s => (s.stale, wpc s.p 0, s.p.G, getList Gen.epochConsts 257 s.nodes, s.pub 257)) =
    some (false, .guarded 257, 258, some [257, 256], [257, 256]) := by
  decide +kernel

/-- with 2-epoch nodes: a guard at epoch 3 across six forwards.  The nodes of the ranges nobody needs are
    retired (chain = ranges 8, 6 and the guard's 2) and the guard still reads its own vector. -/
theorem lists_small_example :
    (lrun smallConsts 1 true (mkL smallConsts 1 1)
      (claim0 ++ List.replicate 4 .fwd ++ guard 0 ++ List.replicate 25 .fwd)).map
      (fun s => (s.stale, wpc s.p 0, s.p.G)) = some (false, .guarded 3, 8) ∧
    (lrun smallConsts 1 true (mkL smallConsts 1 1)
      (claim0 ++ List.replicate 4 .fwd ++ guard 0 ++ List.replicate 25 .fwd)).map
      (fun s => ((s.nodes.map (fun nd => nd.upper) : List Nat), getList smallConsts 3 s.nodes, s.pub 3)) =
    some ([8, 6, 2], some [3, 2], [3, 2]) := by
  constructor <;> decide +kernel

/-- **the premise is needed** (this is known finding F6 on the model): thread 1 loads epoch 5, stalls across
    three forwards, then stores — its lookup returns the vector of epoch 3, not the vector published for 5 -/
theorem lists_stale_premise_needed :
    (lrun smallConsts 2 true (mkL smallConsts 2 2)
      (claim0 ++ claim1 ++ List.replicate 7 .fwd ++ guard 0 ++ List.replicate 14 .fwd ++
        [.create 1, .wstep 1, .wstep 1, .wstep 1] ++ List.replicate 21 .fwd ++ [.wstep 1])).map
      (fun s => (s.stale, wpc s.p 1, getList smallConsts 5 s.nodes, s.pub 5)) =
    some (true, .guarded 5, some [3, 2], [5, 4, 3]) := by
  decide +kernel

end CppUtil.Props
