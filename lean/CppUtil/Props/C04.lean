/-
  C04 — a live epoch guard pins its epoch.
  `c04_protocol` (Props/EpochProtoThm.lean): on the interleaving model of the epoch protocol
  (`Model/EpochProto.lean`: any capacity, any number of threads with ID reuse, every schedule of the atomic
  steps of GetHeartBeater / ~HeartBeater / CreateEpochGuard / ~EpochGuard / ForwardGlobalEpoch), every guard
  that was complete when a forward started and is alive when it is about to return is in the vector published
  for the new epoch, and the stored minimum does not exceed it.  The proof needs the exit order "heartbeat
  expires before the flag is cleared" (read from the source: `Gen.heartbeatExpiresFirst`);
  `c04_protocol_fails_with_original_exit_order` exhibits the lost guard under the other order.
  Building blocks used by it and by the thread-level model: (i) a pinned epoch that the coordinator's scan
  collects is a member of the published vector and the minimum does not exceed it; (ii) C15
  (`c15_free_slot_all_expired`, `c15_unexpired_unique`): an ID is never handed out while an earlier heartbeat
  for it is unexpired, so `CreateEpochGuard`'s `expired()` test rebinds a reused slot.
  The protocol model is tied to the code through the thread-level model: lockstep on every replayed trace
  (`Model/EpochLock.lean`).  Premise: one guard per thread at a time — two at once is known finding F10.
-/
import CppUtil.Proofs.EpochSeq
import CppUtil.Props.C15
import CppUtil.Props.EpochProtoThm

namespace CppUtil.Props
open CppUtil CppUtil.Epoch

/-- a collected pin is published and bounds the minimum from above -/
theorem c04_collected_is_published (cur e : Nat) (pins : List Nat) (he : e ∈ pins) (m : Nat)
    (hm : (sortDescDedup ([cur + 1, cur] ++ pins)).getLast? = some m) :
    e ∈ sortDescDedup ([cur + 1, cur] ++ pins) ∧ m ≤ e := by
  have hs := sortDescDedup_spec ([cur + 1, cur] ++ pins)
  have hmem : e ∈ sortDescDedup ([cur + 1, cur] ++ pins) := (hs.2 e).mpr (by simp [he])
  exact ⟨hmem, desc_last_le _ hs.1 m hm e hmem⟩

end CppUtil.Props
