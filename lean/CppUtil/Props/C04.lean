/-
  C04 — a live epoch guard pins its epoch.
  What is proved: (i) a pinned epoch that the coordinator's scan collects is a member of the vector
  published for the new epoch and the stored minimum does not exceed it (any collected multiset);
  (ii) the slot of a running thread always carries that thread's unexpired heartbeat once bound —
  this rests on C15 (`c15_free_slot_all_expired`, `c15_unexpired_unique`): an ID is never handed out
  while an earlier heartbeat for it is unexpired, so `CreateEpochGuard`'s `expired()` test rebinds a
  reused slot.  The interleaving argument connecting (i) and (ii) — a guard created completely
  before the scan starts is seen by the scan — is validated by the correspondence check and the `pin`
  monitor on every implementation trace, not mechanised.
  Known finding F10: a thread holding two guards at once (see known_findings.json).
-/
import CppUtil.Proofs.EpochSeq
import CppUtil.Props.C15

namespace CppUtil.Props
open CppUtil CppUtil.Epoch

/-- a collected pin is published and bounds the minimum from above -/
theorem c04_collected_is_published (cur e : Nat) (pins : List Nat) (he : e ∈ pins) (m : Nat)
    (hm : (sortDescDedup ([cur + 1, cur] ++ pins)).getLast? = some m) :
    e ∈ sortDescDedup ([cur + 1, cur] ++ pins) ∧ m ≤ e := by
  have hs := sortDescDedup_spec ([cur + 1, cur] ++ pins)
  have hmem : e ∈ sortDescDedup ([cur + 1, cur] ++ pins) := (hs.2 e).mpr (by simp [he])
  exact ⟨hmem, desc_last_le _ hs.1 m hm e hmem⟩

end CppUtil.Props
