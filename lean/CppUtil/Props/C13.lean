/-
  C13 — PrepareRead yields either a valid version or a real shared grant (OptimisticLock).
-/
import CppUtil.Props.C03
import CppUtil.Props.C01
import CppUtil.Props.C07

namespace CppUtil.Props
open CppUtil CppUtil.WLock

/-- a PrepareRead agent is at one of these locations until it finishes -/
def inPrepare : Loc → Prop
  | .prep1 _ => True
  | .prep2 => True
  | .prepCas _ => True
  | _ => False

/-- **Non-owning result**: when PrepareRead finishes without a grant (`done rd`), `rd` is the current
    word at that step and has no exclusive holder — the version handed out was sampled while no X
    holder was active.  (Afterwards the CompositeGuard uses the same `VerifyVersion` code path as an
    OptGuard: `c03_check_iff`, `c03_decisive_read`.) -/
theorem c13_version_result (r : Nat) (s s' : St) (i : Nat) (loc : Loc) (ov : Option Word) (sp : Bool)
    (e : Ev) (rd : Word) (hloc : (∃ k, loc = .prep1 k) ∨ loc = .prep2)
    (hi : s.agents[i]? = some loc)
    (h : atomStep (Gen.opt r) s i loc ov sp = some (s', e)) (hd : s'.agents[i]? = some (.done rd)) :
    rd = s.w ∧ rd.getLsbD 63 = false :=
  c03_decisive_read r s s' i loc ov sp e rd (by rcases hloc with h | h; exact Or.inr (Or.inr (Or.inl h)); exact Or.inr (Or.inr (Or.inr h))) hi h hd

/-- **Owning result**: the shared grant of PrepareRead's fallback is taken by a CAS from a state in
    which the lock is completely free: no X, no SIX, and no shared holder at all — it is never added
    on top of existing shared or SIX holders. -/
theorem c13_shared_fallback (r : Nat) (acts : List Act) (s s' : St) (i : Nat) (seen seen' : Word)
    (ov : Option Word) (sp : Bool) (e : Ev)
    (h : run (Gen.opt r) init acts = some s) (hcap : s.agents.length < 2 ^ 30)
    (hi : s.agents[i]? = some (.prepCas seen))
    (hst : atomStep (Gen.opt r) s i (.prepCas seen) ov sp = some (s', e))
    (hgr : s'.agents[i]? = some (.held .S seen')) :
    cnt s .X = 0 ∧ cnt s .SIX = 0 ∧ cnt s .S = 0 :=
  prep_grant_free (opt_specs r)
    (inv_reachable (opt_specs r) ⟨acts, h⟩ (by simpa [optDecoder] using hcap)) hi hst hgr

/-- PrepareRead never finishes from a step that read a word with the X bit: the only exits are
    `done rd` (covered above) and the CAS from a word that passed `noX`. -/
theorem c13_cas_from_noX (r : Nat) (acts : List Act) (s : St) (i : Nat) (seen : Word)
    (h : run (Gen.opt r) init acts = some s) (hcap : s.agents.length < 2 ^ 30)
    (hi : s.agents[i]? = some (.prepCas seen)) : seen.getLsbD 63 = false := by
  have hI := inv_reachable (opt_specs r) ⟨acts, h⟩ (by simpa [optDecoder] using hcap)
  have hok := locOK_of_mem hI hi
  simp only [LocOK] at hok
  simpa [optDecoder] using ((opt_specs r).noX_iff seen).mp hok.1

/-- non-vacuity: a writer holds X while PrepareRead spends its optimistic attempts (retry = 1), the
    writer leaves, and the fallback takes a real shared grant from the free word -/
def demoPrep : List Act :=
  [.spawn, .spawn, .start 0 (.lock .X), .atom 0 none false, .atom 0 none false,
   .start 1 .prepare, .atom 1 none false, .atom 1 none false,   -- two failed optimistic attempts
   .release 0 5,
   .atom 1 none false, .atom 1 none false]                       -- fallback: load, CAS

example : ∃ s, run (Gen.opt 1) init demoPrep = some s ∧ holds s 1 .S ∧ verField s.w = 5 :=
  ⟨_, rfl, ⟨_, rfl, rfl⟩, by decide⟩


/-! ## The composite guard class (client layer) -/

open CppUtil.WClient

/-- **an owning `CompositeGuard` is backed by a genuine shared grant**: in every state reachable by any schedule of
    any well-formed client program, a composite guard with `has_lock_` points at a request that holds S on the guard's
    lock (at every quantum boundary of its thread), and no other guard owns that grant — so it is released through this
    guard only (`c07_client_release_enabled`, `c07_client_quiescent`: exactly once). -/
theorem c13_client_owning_composite_holds_shared {P : WParams} {vo : Nat → Nat} {c0 c : Client} (hi : Initial c0)
    (hwf : WF vo c0) (hr : ReachableC P c0 c) (v lk a : Nat) (hk : kindOf c v = .Comp) (h : own c v = some (lk, a))
    (hb : (getThread c (vo v)).pend ≠ .none ∨ (getThread c (vo v)).finished = true) :
    (∃ s, agentLoc c lk a = .held .S s) ∧ ∀ v', own c v' = some (lk, a) → v' = v := by
  obtain ⟨s, hs⟩ := c07_client_owner_holds_at_boundary hi hwf hr v lk a h hb
  rw [hk] at hs
  refine ⟨⟨s, hs⟩, ?_⟩
  intro v' h'
  exact (c07_client_one_owner hi hwf hr).1 v' v (lk, a) h' h ⟨_, _, hs⟩

end CppUtil.Props
