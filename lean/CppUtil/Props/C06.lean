/-
  C06 — Zipf generators sample by inverse CDF and stay in [min, max].
  `search` (Model/Zipf.lean) is `operator()` after the variate has been drawn; it is the definition the
  driver executes (at `Float`, on the model's CDF, compared with every implementation sample).
-/
import CppUtil.Proofs.ZipfSearch
import CppUtil.Gen.Zipf

namespace CppUtil.Props
open CppUtil CppUtil.Zipf

/-- **Inverse CDF.**  For every value type with a strict total order (as a Boolean comparator), every
    number of bins `n ≥ 1`, every CDF that is non-decreasing on `[0, n)` (ties allowed) and every variate
    `u ≤ cdf (n−1)`: the returned bin `r` satisfies `0 ≤ r < n`, `u ≤ cdf r`, and `r = 0 ∨ cdf (r−1) ≤ u`. -/
theorem c06_inverse_cdf {α : Type} (cdf : Int → α) (lt : α → α → Bool) (hlt : StrictTotal lt) (u : α) (n : Int)
    (hn : 0 < n) (hmono : ∀ i j, 0 ≤ i → i ≤ j → j < n → le lt (cdf i) (cdf j))
    (hu : le lt u (cdf (n - 1))) :
    0 ≤ search cdf lt n u ∧ search cdf lt n u < n ∧ le lt u (cdf (search cdf lt n u)) ∧
    (search cdf lt n u = 0 ∨ le lt (cdf (search cdf lt n u - 1)) u) :=
  search_spec cdf lt hlt u n hn hmono hu

/-- **Range.**  With `n = max − min + 1` bins the returned value `min + r` lies in `[min, max]`. -/
theorem c06_in_range {α : Type} (cdf : Int → α) (lt : α → α → Bool) (hlt : StrictTotal lt) (u : α)
    (mn mx : Int) (hle : mn ≤ mx)
    (hmono : ∀ i j, 0 ≤ i → i ≤ j → j < mx - mn + 1 → le lt (cdf i) (cdf j))
    (hu : le lt u (cdf (mx - mn + 1 - 1))) :
    mn ≤ mn + search cdf lt (mx - mn + 1) u ∧ mn + search cdf lt (mx - mn + 1) u ≤ mx := by
  have := search_spec cdf lt hlt u (mx - mn + 1) (by omega) hmono hu
  omega

/-- **Default-constructed generators** (one bin): the result is bin 0 for every variate not above the
    single CDF entry -/
theorem c06_one_bin {α : Type} (cdf : Int → α) (lt : α → α → Bool) (u : α) (hu : lt (cdf 0) u = false) :
    search cdf lt 1 u = 0 := by
  have h0 : loop cdf lt u 0 0 = 0 := by
    unfold loop; simp
  simp only [search, Int.sub_self, h0, hu]
  rfl

/-- tie G: the switch point between the stored exact bins and the formula -/
theorem c06_switch : Gen.zipfExactBinNum = 100 := by decide

/-- non-vacuity: a 4-bin table with a tie, searched at a breakpoint and between breakpoints -/
def demoCdf (i : Int) : Nat := [1, 3, 3, 10].getD i.toNat 0
def demoLt (a b : Nat) : Bool := decide (a < b)

theorem demoLt_total : StrictTotal demoLt where
  irrefl := by intro a; simp [demoLt]
  trans := by intro a b c h1 h2; simp [demoLt] at *; omega
  total := by intro a b h1 h2; simp [demoLt] at *; omega

/-- the hypotheses of `c06_inverse_cdf` are satisfiable: the 4-bin table is monotone and 3 ≤ cdf 3 -/
example : 0 ≤ search demoCdf demoLt 4 3 ∧ search demoCdf demoLt 4 3 < 4 ∧ le demoLt 3 (demoCdf (search demoCdf demoLt 4 3)) := by
  have := c06_inverse_cdf demoCdf demoLt demoLt_total 3 4 (by omega)
    (by
      intro i j hi hij hj
      have hi4 : i = 0 ∨ i = 1 ∨ i = 2 ∨ i = 3 := by omega
      have hj4 : j = 0 ∨ j = 1 ∨ j = 2 ∨ j = 3 := by omega
      rcases hi4 with rfl | rfl | rfl | rfl <;> rcases hj4 with rfl | rfl | rfl | rfl <;>
        first | (exfalso; omega) | (simp [le, demoLt, demoCdf]))
    (by simp [le, demoLt, demoCdf])
  exact ⟨this.1, this.2.1, this.2.2.1⟩

end CppUtil.Props
