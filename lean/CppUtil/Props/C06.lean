/- C06 — property theorems (being extended). -/
import CppUtil.Model.Zipf
import CppUtil.Gen.Zipf
