/-
  MCSLock, tie-G obligation of the protocol proof: the word facts `WordSpecs` at the regenerated constants,
  for the layout  bit 63 X | bit 62 SIX | bits 61..47 shared counter | bits 46..0 node pointer.
  Bit-level lemmas by `bv_decide` (one `…._native.bv_decide.ax_*` axiom each), lifted to numbers.
-/
import Std.Tactic.BVDecide
import CppUtil.Gen.Mcs
import CppUtil.Proofs.McsWords

namespace CppUtil.Props.McsWordsGen
open CppUtil CppUtil.Mcs

abbrev C := Gen.mcsConsts

def enc (p : BitVec 47) (x six : Bool) (c : BitVec 15) : Word :=
  p.zeroExtend 64 ||| (c.zeroExtend 64 <<< 47) ||| (bif six then 0x4000000000000000#64 else 0#64) |||
    (bif x then 0x8000000000000000#64 else 0#64)

/-- the encoding used by the protocol proof -/
def Wc (p : Nat) (x six : Bool) (c : Nat) : Word := enc (BitVec.ofNat 47 p) x six (BitVec.ofNat 15 c)

macro "wbits" : tactic =>
  `(tactic| ((try simp only [Gen.mcsConsts] at *); (try unfold Word at *); (try unfold enc at *); bv_decide))

theorem enc_zero : enc 0 false false 0 = 0 := by wbits
theorem enc_eqZero (p : BitVec 47) (x six : Bool) (c : BitVec 15) :
    enc p x six c = 0 ↔ p = 0 ∧ x = false ∧ six = false ∧ c = 0 := by wbits
theorem enc_inj (p p' : BitVec 47) (x six x' six' : Bool) (c c' : BitVec 15) (h : enc p x six c = enc p' x' six' c') :
    p = p' ∧ x = x' ∧ six = six' ∧ c = c' := by wbits
theorem enc_ptr (p : BitVec 47) (x six : Bool) (c : BitVec 15) :
    enc p x six c &&& C.kPtrMask = p.zeroExtend 64 := by wbits
theorem enc_xmask (p : BitVec 47) (x six : Bool) (c : BitVec 15) :
    (enc p x six c &&& C.kXMask) = 0 ↔ x = false ∧ six = false := by wbits
theorem enc_lockmask (p : BitVec 47) (x six : Bool) (c : BitVec 15) :
    (enc p x six c &&& C.kLockMask) = 0 ↔ x = false ∧ six = false ∧ c = 0 := by wbits
theorem enc_smask (p : BitVec 47) (x six : Bool) (c : BitVec 15) :
    (enc p x six c &&& C.kSMask) = 0 ↔ c = 0 := by wbits
theorem enc_lockbits (p : BitVec 47) (x six : Bool) (c : BitVec 15) :
    enc p x six c &&& C.kLockMask = enc 0 x six c := by wbits
theorem enc_addS (p : BitVec 47) (x six : Bool) (c : BitVec 15) (h : c ≠ BitVec.allOnes 15) :
    enc p x six c + C.kSLock = enc p x six (c + 1) := by wbits
theorem enc_subS (p : BitVec 47) (x six : Bool) (c : BitVec 15) (h : c ≠ BitVec.allOnes 15) :
    enc p x six (c + 1) - C.kSLock = enc p x six c := by wbits
theorem enc_xorX (p : BitVec 47) (x six : Bool) (c : BitVec 15) :
    enc p x six c ^^^ C.kXLock = enc p (!x) six c := by wbits
theorem enc_xorSIX (p : BitVec 47) (x six : Bool) (c : BitVec 15) :
    enc p x six c ^^^ C.kSIXLock = enc p x (!six) c := by wbits
theorem enc_xorXMask (p : BitVec 47) (x six : Bool) (c : BitVec 15) :
    enc p x six c ^^^ C.kXMask = enc p (!x) (!six) c := by wbits
theorem enc_link (q : BitVec 47) (x six : Bool) (c : BitVec 15) :
    enc 0 x six c + q.zeroExtend 64 = enc q x six c := by wbits
theorem enc_xflag : C.kXLock = enc 0 true false 0 := by wbits
theorem enc_newS (q : BitVec 47) : q.zeroExtend 64 ||| C.kSLock = enc q false false 1 := by wbits
theorem enc_newX (q : BitVec 47) : q.zeroExtend 64 ||| C.kXLock = enc q true false 0 := by wbits
theorem enc_newSIX (q : BitVec 47) : q.zeroExtend 64 ||| C.kSIXLock = enc q false true 0 := by wbits
theorem enc_publish (l p : BitVec 47) (x six : Bool) (c : BitVec 15) :
    enc l true false 0 ^^^ (C.kXLock ^^^ (enc p x six c &&& C.kLockMask)) = enc l x six c := by wbits
theorem enc_publish0 (l : BitVec 47) :
    enc l true false 0 ^^^ (C.kXLock ^^^ ((0 : Word) &&& C.kLockMask)) = enc l false false 0 := by wbits
theorem enc_decS (p : BitVec 47) (six : Bool) (c : BitVec 15) (h : c ≠ BitVec.allOnes 15) :
    (((enc p false six (c + 1) - C.kSLock) &&& (C.kSMask ||| C.kSIXLock)) ≠ 0 ↔ (c ≠ 0 ∨ six = true)) := by wbits
theorem enc_lastS (p : BitVec 47) (x six : Bool) (c : BitVec 15) :
    (enc p x six c &&& C.kLockMask) = C.kSLock ↔ x = false ∧ six = false ∧ c = 1 := by wbits

/-! ### numbers -/

theorem ofNat47_ext (p : Nat) (h : p < 2 ^ 47) : (BitVec.ofNat 47 p).zeroExtend 64 = ofNode p := by
  apply BitVec.eq_of_toNat_eq
  simp [ofNode, BitVec.toNat_ofNat]
  omega

theorem ofNat47_eq {p p' : Nat} (h : p < 2 ^ 47) (h' : p' < 2 ^ 47) (e : BitVec.ofNat 47 p = BitVec.ofNat 47 p') : p = p' := by
  have := congrArg BitVec.toNat e
  simp [BitVec.toNat_ofNat] at this
  omega

theorem ofNat15_eq {c c' : Nat} (h : c < 2 ^ 15) (h' : c' < 2 ^ 15) (e : BitVec.ofNat 15 c = BitVec.ofNat 15 c') : c = c' := by
  have := congrArg BitVec.toNat e
  simp [BitVec.toNat_ofNat] at this
  omega

theorem ofNat15_ne_ones {c : Nat} (h : c + 1 < 2 ^ 15) : BitVec.ofNat 15 c ≠ BitVec.allOnes 15 := by
  intro e
  have := congrArg BitVec.toNat e
  simp [BitVec.toNat_ofNat] at this
  omega

theorem ofNat15_succ (c : Nat) : BitVec.ofNat 15 (c + 1) = BitVec.ofNat 15 c + 1 := by
  apply BitVec.eq_of_toNat_eq
  simp [BitVec.toNat_ofNat, BitVec.toNat_add]

theorem ofNat47_zero_iff {p : Nat} (h : p < 2 ^ 47) : BitVec.ofNat 47 p = 0 ↔ p = 0 := by
  constructor
  · intro e; exact ofNat47_eq h (by decide) e
  · intro e; rw [e]; rfl

theorem ofNat15_zero_iff {c : Nat} (h : c < 2 ^ 15) : BitVec.ofNat 15 c = 0 ↔ c = 0 := by
  constructor
  · intro e; exact ofNat15_eq h (by decide) e
  · intro e; rw [e]; rfl

theorem ofNat15_one_iff {c : Nat} (h : c < 2 ^ 15) : BitVec.ofNat 15 c = 1 ↔ c = 1 := by
  constructor
  · intro e; exact ofNat15_eq h (by decide) e
  · intro e; rw [e]; rfl

/-- **tie G**: the word facts hold at the regenerated constants (node numbers below 2^47, fewer than 2^15
    simultaneous requests per lock) -/
theorem wordSpecs : WordSpecs Gen.mcsConsts (2 ^ 47) (2 ^ 15) Wc := by
  refine { pbLe := by decide, null := rfl, noLocks := rfl, zero := enc_zero, eqZero := ?_, inj := ?_, ptr := ?_,
           xmask := ?_, lockmask := ?_, smask := ?_, lockbits := ?_, addS := ?_, subS := ?_, xorX := ?_,
           xorSIX := ?_, xorXMask := ?_, link := ?_, xflag := enc_xflag, newS := ?_, newX := ?_, newSIX := ?_,
           publish := ?_, publish0 := ?_, decS := ?_, lastS := ?_, cbPos := by decide }
  · intro p x six c hp hc
    unfold Wc; rw [enc_eqZero, ofNat47_zero_iff hp, ofNat15_zero_iff hc]
  · intro p x six c p' x' six' c' hp hc hp' hc' h
    obtain ⟨h1, h2, h3, h4⟩ := enc_inj _ _ _ _ _ _ _ _ h
    exact ⟨ofNat47_eq hp hp' h1, h2, h3, ofNat15_eq hc hc' h4⟩
  · intro p x six c hp _; unfold Wc; rw [enc_ptr, ofNat47_ext p hp]
  · intro p x six c _ _; unfold Wc; exact enc_xmask _ _ _ _
  · intro p x six c _ hc; unfold Wc; rw [enc_lockmask, ofNat15_zero_iff hc]
  · intro p x six c _ hc; unfold Wc; rw [enc_smask, ofNat15_zero_iff hc]
  · intro p x six c _ _; unfold Wc; exact enc_lockbits _ _ _ _
  · intro p x six c _ hc; unfold Wc; rw [ofNat15_succ, enc_addS _ _ _ _ (ofNat15_ne_ones hc)]
  · intro p x six c _ hc; unfold Wc; rw [ofNat15_succ, enc_subS _ _ _ _ (ofNat15_ne_ones hc)]
  · intro p x six c _ _; unfold Wc; exact enc_xorX _ _ _ _
  · intro p x six c _ _; unfold Wc; exact enc_xorSIX _ _ _ _
  · intro p x six c _ _; unfold Wc; exact enc_xorXMask _ _ _ _
  · intro q x six c hq _; unfold Wc; rw [← ofNat47_ext q hq]; exact enc_link _ _ _ _
  · intro q hq; unfold Wc; rw [← ofNat47_ext q hq]; exact enc_newS _
  · intro q hq; unfold Wc; rw [← ofNat47_ext q hq]; exact enc_newX _
  · intro q hq; unfold Wc; rw [← ofNat47_ext q hq]; exact enc_newSIX _
  · intro l p x six c _ _ _; unfold Wc; exact enc_publish _ _ _ _ _
  · intro l _; unfold Wc; exact enc_publish0 _
  · intro p six c _ hc; unfold Wc; rw [ofNat15_succ, enc_decS _ _ _ (ofNat15_ne_ones hc), Ne, ofNat15_zero_iff (by omega)]
  · intro p x six c _ hc; unfold Wc; rw [enc_lastS, ofNat15_one_iff hc]

end CppUtil.Props.McsWordsGen
