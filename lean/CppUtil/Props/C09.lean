/-
  C09 — each exclusive section publishes exactly one new version (OptimisticLock).
-/
import CppUtil.Props.WSpecs
import CppUtil.Proofs.WLockMore

namespace CppUtil.Props
open CppUtil CppUtil.WLock

/-- version stored in the lock word (bits 31..0) -/
def verField (w : Word) : BitVec 32 := w.extractLsb' 0 32

/-- The version changes only in a step that ends an exclusive grant (release of an X grant —
    destructor or move assignment over it — or `DowngradeToSIX`), and then becomes exactly the
    published `new_ver_`.  Every other transition — S / SIX acquisition and release, failed or
    successful `TryLock*` CAS, every version read, upgrades — leaves it unchanged. -/
theorem c09_version_discipline (r : Nat) (acts : List Act) (s s' : St) (a : Act) (e : Option Ev)
    (h : run (Gen.opt r) init acts = some s) (hcap : s.agents.length < 2 ^ 30)
    (hst : step (Gen.opt r) s a = some (s', e)) :
    verField s'.w = (match isXEnd s a with | some nv => nv | none => verField s.w) := by
  have hI := inv_reachable (opt_specs r) ⟨acts, h⟩ (by simpa [optDecoder] using hcap)
  have := ver_step (opt_specs r) hI (by simpa [optDecoder] using hcap) hst
  cases hx : isXEnd s a <;> rw [hx] at this <;> simpa [optDecoder, verField] using this

/-- `XGuard::GetVersion()` (= `static_cast<uint32_t>(cur)` of the word the granting CAS replaced)
    is the version that was current when the exclusive grant began. -/
theorem c09_xguard_version (r : Nat) (w : Word) : (Gen.opt r).castVer w = verField w :=
  (opt_specs r).castVer_eq w

/-- No version value disturbs the lock-mode state: for **every** 32-bit value the released word
    decodes to "no X, no SIX, no shared holder, version = that value", and the downgraded word to
    "SIX only, version = that value". -/
theorem c09_release_word (r : Nat) (nv : BitVec 32) :
    let w := (Gen.opt r).relXVal nv
    w.getLsbD 63 = false ∧ w.getLsbD 62 = false ∧ w.extractLsb' 32 30 = 0 ∧ verField w = nv := by
  simp only [Gen.opt, optParams, verField]
  exact OptBits.rel_x nv

theorem c09_downgrade_word (r : Nat) (nv : BitVec 32) :
    let w := (Gen.opt r).dngVal nv
    w.getLsbD 63 = false ∧ w.getLsbD 62 = true ∧ w.extractLsb' 32 30 = 0 ∧ verField w = nv := by
  simp only [Gen.opt, optParams, verField]
  exact OptBits.dng nv

/-- wrap-around: the default new version after 2^32 - 1 is 0 (arithmetic of `uint32_t`) -/
example : (0xffffffff#32 + 1) = 0 := by decide

/-- non-vacuity: an X section with SetVersion(0xffffffff) from version 0 publishes exactly that -/
example : ∃ s, run (Gen.opt 1) init
    [.spawn, .start 0 (.lock .X), .atom 0 none false, .atom 0 none false, .release 0 0xffffffff] = some s ∧
    verField s.w = 0xffffffff ∧ s.w.getLsbD 63 = false := ⟨_, rfl, by decide, by decide⟩

end CppUtil.Props
