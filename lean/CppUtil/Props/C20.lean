/- C20 — property theorems: see below (being extended). -/
import CppUtil.Gen.Thread
import CppUtil.Model.TClient
