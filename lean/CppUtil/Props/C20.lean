/-
  C20 — EpochManager keeps only the list nodes it needs and frees them all (sequential histories).
  Proved here: the published vector is *exactly* the distinct values {new epoch, previous epoch, pinned
  epochs} in descending order (for every multiset of pins), its last element is the minimum, and the
  vector just written for the new epoch is what a lookup of that epoch returns.  The node-count bound
  and "destructor frees all" are checked on every sequential scenario by the monitors (`seqnodes`),
  on the implementation's own allocation events; the pruning walk's theorems are being extended in
  `Proofs/EpochSeq.lean`.
-/
import CppUtil.Proofs.EpochSeq
import CppUtil.Gen.Thread

namespace CppUtil.Props
open CppUtil CppUtil.Epoch

/-- **exact content**: strictly descending, and `y` is in the vector iff `y` is the new epoch, the
    previous epoch or a pinned epoch -/
theorem c20_published_exact (cur : Nat) (pins : List Nat) :
    Desc (sortDescDedup ([cur + 1, cur] ++ pins)) ∧
    ∀ y, y ∈ sortDescDedup ([cur + 1, cur] ++ pins) ↔ (y = cur + 1 ∨ y = cur ∨ y ∈ pins) := by
  have hs := sortDescDedup_spec ([cur + 1, cur] ++ pins)
  refine ⟨hs.1, ?_⟩
  intro y; rw [hs.2 y]; simp

/-- the vector does not depend on the order or multiplicity in which slots report their pins: any
    strictly descending list with the same members is the published one -/
theorem c20_published_unique (cur : Nat) (pins : List Nat) (l : List Nat) (hl : Desc l)
    (hm : ∀ y, y ∈ l ↔ (y = cur + 1 ∨ y = cur ∨ y ∈ pins)) : l = sortDescDedup ([cur + 1, cur] ++ pins) := by
  have hs := c20_published_exact cur pins
  exact desc_ext l _ hl hs.1 (by intro y; rw [hm y, hs.2 y])

/-- **GetMinEpoch** is the smallest element -/
theorem c20_min_is_smallest (cur : Nat) (pins : List Nat) (m : Nat)
    (hm : (sortDescDedup ([cur + 1, cur] ++ pins)).getLast? = some m) :
    m ∈ sortDescDedup ([cur + 1, cur] ++ pins) ∧ ∀ y ∈ sortDescDedup ([cur + 1, cur] ++ pins), m ≤ y :=
  ⟨List.mem_of_getLast? hm, desc_last_le _ (sortDescDedup_spec _).1 m hm⟩

/-- non-vacuity / concrete instance: pins 300, 256, 300 at current epoch 511 -/
example : sortDescDedup ([512, 511] ++ [300, 256, 300]) = [512, 511, 300, 256] := by decide

end CppUtil.Props
