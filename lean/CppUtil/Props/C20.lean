/-
  C20 — EpochManager keeps only the list nodes it needs and frees them all (sequential histories).
  Proved here: the published vector is *exactly* the distinct values {new epoch, previous epoch, pinned
  epochs} in descending order (for every multiset of pins), its last element is the minimum, and the
  vector just written for the new epoch is what a lookup of that epoch returns.  For every sequential
  history (any sequence of guard creations, guard destructions and forwards, `Proofs/EpochHist.lean`):
  `ForwardGlobalEpoch` always terminates (the pruning walk never spins, no lookup runs off the chain),
  it publishes exactly that vector and that minimum, the pruning walk keeps exactly the nodes whose
  range holds a protected epoch plus the oldest node (`Proofs/EpochPrune.lean`), and right after it
  the chain has at most (number of distinct occupied 256-epoch ranges) + 1 nodes.  "Destructor frees
  all" is a walk over the whole chain (checked on the implementation's allocation events by the
  `seqnodes` monitor).
-/
import CppUtil.Proofs.EpochHist
import CppUtil.Gen.Thread
import CppUtil.Props.EpochListsThm

namespace CppUtil.Props
open CppUtil CppUtil.Epoch

/-- **exact content**: strictly descending, and `y` is in the vector iff `y` is the new epoch, the
    previous epoch or a pinned epoch -/
theorem c20_published_exact (cur : Nat) (pins : List Nat) :
    Desc (sortDescDedup ([cur + 1, cur] ++ pins)) ∧
    ∀ y, y ∈ sortDescDedup ([cur + 1, cur] ++ pins) ↔ (y = cur + 1 ∨ y = cur ∨ y ∈ pins) := by
  have hs := sortDescDedup_spec ([cur + 1, cur] ++ pins)
  refine ⟨hs.1, ?_⟩
  intro y; rw [hs.2 y]; simp

/-- the vector does not depend on the order or multiplicity in which slots report their pins: any
    strictly descending list with the same members is the published one -/
theorem c20_published_unique (cur : Nat) (pins : List Nat) (l : List Nat) (hl : Desc l)
    (hm : ∀ y, y ∈ l ↔ (y = cur + 1 ∨ y = cur ∨ y ∈ pins)) : l = sortDescDedup ([cur + 1, cur] ++ pins) := by
  have hs := c20_published_exact cur pins
  exact desc_ext l _ hl hs.1 (by intro y; rw [hm y, hs.2 y])

/-- **GetMinEpoch** is the smallest element -/
theorem c20_min_is_smallest (cur : Nat) (pins : List Nat) (m : Nat)
    (hm : (sortDescDedup ([cur + 1, cur] ++ pins)).getLast? = some m) :
    m ∈ sortDescDedup ([cur + 1, cur] ++ pins) ∧ ∀ y ∈ sortDescDedup ([cur + 1, cur] ++ pins), m ≤ y :=
  ⟨List.mem_of_getLast? hm, desc_last_le _ (sortDescDedup_spec _).1 m hm⟩

/-- the regenerated constants are well-formed (capacity > 0, initial epoch aligned and above the minimum) -/
theorem c20_good_consts : GoodConsts Gen.epochConsts := ⟨by decide, by decide, by decide⟩

/-- **every sequential history runs to completion**: no forward hangs in the pruning walk or walks off
    the chain, whatever guards are created and destroyed in between, however long they stay pinned -/
theorem c20_history_total (ops : List SeqOp) :
    ∃ s, seqRun Gen.epochConsts (seqInit Gen.epochConsts) ops = some s ∧ SInv Gen.epochConsts s :=
  sinv_run Gen.epochConsts c20_good_consts ops _ (sinv_init _ c20_good_consts)

/-- **a forward after any history**: exact vector, exact minimum, and the node bound -/
theorem c20_forward_after_history (ops : List SeqOp) (s : SeqSt)
    (h : seqRun Gen.epochConsts (seqInit Gen.epochConsts) ops = some s) :
    ∃ s', seqStep Gen.epochConsts s .forward = some s' ∧
      s'.cur = s.cur + 1 ∧
      s'.last = sortDescDedup ([s.cur + 1, s.cur] ++ s.pins) ∧
      s'.min = (sortDescDedup ([s.cur + 1, s.cur] ++ s.pins)).getLast?.getD 0 ∧
      s'.nodes.length ≤ (sortDescDedup (s'.last.map (upperOf Gen.epochConsts))).length + 1 := by
  have hI := sinv_reachable _ c20_good_consts ops s h
  obtain ⟨s', h1, _, h3, _, h5, h6, _, h8⟩ := forward_ok _ c20_good_consts s hI
  exact ⟨s', h1, h3, h5, h6, h8⟩

/-- **the pruning walk**, for any chain and protected list meeting the coordinator's conditions: it
    terminates and returns exactly the wanted nodes plus the oldest one, freeing exactly the others -/
theorem c20_prune_exact (c : List PNode) (pe : Nat) (it : List Nat) (hs : PState Gen.epochConsts c pe it)
    (hh : c.length ≤ 1 ∨ ∃ cur rest, c = cur :: rest ∧ pe = cur.upper) :
    prune Gen.epochConsts (2 * c.length + 4) [] c pe it =
      some (keepOf Gen.epochConsts pe it c, freeOf Gen.epochConsts pe it c) ∧
    (keepOf Gen.epochConsts pe it c).length + (freeOf Gen.epochConsts pe it c).length = c.length ∧
    (keepOf Gen.epochConsts pe it c).length ≤ (sortDescDedup (pe :: it.map (upperOf Gen.epochConsts))).length + 1 := by
  refine ⟨?_, keep_free_length _ pe it c, keepOf_length_le _ pe it c hs.sorted⟩
  have := prune_spec Gen.epochConsts c (2 * c.length + 4) [] pe it hs (Or.inr hh) (by omega)
  simpa using this

/-- non-vacuity: a history with a long-pinned guard across two range boundaries: pin at 256, 600 forwards,
    the chain holds the nodes of ranges 768 (current), 256 (pinned, oldest) — the node of 512 was retired -/
example : ((seqRun Gen.epochConsts (seqInit Gen.epochConsts) (SeqOp.enter :: List.replicate 600 SeqOp.forward)).map
    (fun s => (s.cur, s.nodes.map (·.upper), s.min))) = some (856, [768, 256], 256) := by decide +kernel

/-- non-vacuity / concrete instance: pins 300, 256, 300 at current epoch 511 -/
example : sortDescDedup ([512, 511] ++ [300, 256, 300]) = [512, 511, 300, 256] := by decide

end CppUtil.Props
