/-
  C03 — optimistic validation is sound and complete (OptimisticLock).
-/
import CppUtil.Props.C09
import CppUtil.Proofs.WLockWindow

namespace CppUtil.Props
open CppUtil CppUtil.WLock

/-- **Decisive reads carry no X bit.**  The value from which GetVersion / PrepareRead build their
    version, and on which VerifyVersion decides, is the current word at that step and has no
    exclusive holder. -/
theorem c03_decisive_read (r : Nat) (s s' : St) (i : Nat) (loc : Loc) (ov : Option Word) (sp : Bool)
    (e : Ev) (rd : Word)
    (hloc : loc = .gvLoad ∨ (∃ c, loc = .vfLoad c) ∨ (∃ k, loc = .prep1 k) ∨ loc = .prep2)
    (hi : s.agents[i]? = some loc)
    (h : atomStep (Gen.opt r) s i loc ov sp = some (s', e)) (hd : s'.agents[i]? = some (.done rd)) :
    rd = s.w ∧ rd.getLsbD 63 = false := by
  have := reader_done hloc hi h hd
  exact ⟨this.1, by simpa [optDecoder] using ((opt_specs r).noX_iff rd).mp this.2⟩

/-- **Check succeeds ⇔ version equal** (at a read without X): what the guard classes compute
    (`ver_ = cur & kVersionMask; return ver_ == expected`) is equality with the lock's version field;
    on failure the guard is left carrying that current version (by construction of the client model,
    `Model/WClient.lean`, instruction `verify`). -/
theorem c03_check_iff (r : Nat) (rd : Word) (v : BitVec 32) :
    ((Gen.opt r).verOf rd == v) = true ↔ verField rd = v := by
  have := verify_iff (opt_specs r) rd v
  simpa [optDecoder, verField] using this

/-- **TryLock\***: an owning guard returned by TryLockS / TryLockSIX / TryLockX was created by a CAS
    from the current word, which had no X holder, passed the admission test of the mode and carried
    exactly the guard's version. -/
theorem c03_trylock_sound (r : Nat) (acts : List Act) (s s' : St) (i : Nat) (m : Mode) (ver : BitVec 32)
    (seen seen' : Word) (ov : Option Word) (sp : Bool) (e : Ev)
    (h : run (Gen.opt r) init acts = some s) (hcap : s.agents.length < 2 ^ 30)
    (hi : s.agents[i]? = some (.tryCas m ver seen))
    (hst : atomStep (Gen.opt r) s i (.tryCas m ver seen) ov sp = some (s', e))
    (hgr : s'.agents[i]? = some (.held m seen')) :
    seen' = s.w ∧ verField s.w = ver ∧ s.w.getLsbD 63 = false := by
  have hI := inv_reachable (opt_specs r) ⟨acts, h⟩ (by simpa [optDecoder] using hcap)
  have := try_grant_sound (opt_specs r) hI hi hst hgr
  exact ⟨this.1, by simpa [optDecoder, verField] using this.2.2.1, by simpa [optDecoder] using this.2.2.2⟩

/-- **Soundness over a window.**  Let the lock be in a reachable state `s1` without X holder and with
    version `v` (the moment the guard obtained `v`), let any activity `acts` of any number of threads
    follow, ending in `s2` where again no X holder is active and the version equals `v` (the moment a
    check succeeds).  If no exclusive section that ends inside the window republishes `v`
    (`NoRepublish`), then at **every** moment of the window there is no exclusive holder, the version
    is `v`, and no step ends an exclusive grant: nothing was committed, everything read in between is
    a consistent snapshot. -/
theorem c03_window (r : Nat) (pre acts : List Act) (s1 s2 : St) (v : BitVec 32)
    (h1 : run (Gen.opt r) init pre = some s1) (h2 : run (Gen.opt r) s1 acts = some s2)
    (hcap : s2.agents.length < 2 ^ 30)
    (hnr : NoRepublish (Gen.opt r) optDecoder v s1 acts)
    (hx1 : s1.w.getLsbD 63 = false) (hv1 : verField s1.w = v)
    (hx2 : s2.w.getLsbD 63 = false) (hv2 : verField s2.w = v) :
    Quiet (Gen.opt r) optDecoder v s1 acts := by
  have hl := length_run h2
  have hI := inv_reachable (opt_specs r) ⟨pre, h1⟩ (by simp only [optDecoder]; omega)
  exact window_quiet (opt_specs r) v acts s1 s2 hI h2 (by simpa [optDecoder] using hcap) hnr
    (by simpa [optDecoder] using hx1) (by simpa [optDecoder, verField] using hv1)
    (by simpa [optDecoder] using hx2) (by simpa [optDecoder, verField] using hv2)

/-- The hypothesis `NoRepublish` cannot be dropped: with `SetVersion(v)` republishing the old value a
    check succeeds although an exclusive section was committed (proved on the model; this is the
    documented caveat of the property, not a defect). -/
example : ∃ s2, run (Gen.opt 1) init
    [.spawn, .start 0 (.lock .X), .atom 0 none false, .atom 0 none false, .release 0 0] = some s2 ∧
    verField s2.w = 0 ∧ s2.w.getLsbD 63 = false := ⟨_, rfl, by decide, by decide⟩

/-- non-vacuity of `c03_window`: a window with S and SIX traffic (no X) satisfies all hypotheses -/
example : ∃ s2, run (Gen.opt 1) init
    [.spawn, .start 0 (.lock .S), .atom 0 none false, .atom 0 none false, .release 0 0] = some s2 ∧
    NoRepublish (Gen.opt 1) optDecoder 0 init
      [.spawn, .start 0 (.lock .S), .atom 0 none false, .atom 0 none false, .release 0 0] ∧
    verField s2.w = 0 ∧ s2.w.getLsbD 63 = false := by
  exact ⟨_, rfl, noRepublish_of_B _ _ _ _ _ rfl, by decide, by decide⟩

end CppUtil.Props
