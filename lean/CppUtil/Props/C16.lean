/-
  C16 — the global epoch advances by exactly one and reclamation can progress.
  The coordinator's `ForwardGlobalEpoch` is the instruction `fwd` of the thread-level model
  (`Model/TClient.lean`, compared quantum by quantum with the real code): it loads the global epoch
  `cur`, publishes `sortDescDedup ([cur+1, cur] ++ pins)` as the vector of `cur+1`, stores `cur+1` as the
  global epoch and the vector's last element as the minimum.  Proved here, for every input:
  the facts about those values that the property states.  For every interleaving of workers and the
  coordinator (`Model/EpochProto.lean`, Props/EpochProtoThm.lean): `c16_protocol_count` (global epoch =
  initial + completed forwards), `c16_protocol_step` (only the coordinator's store moves it, by one),
  `c16_protocol_min_le_later_cur`, `c16_protocol_quiescent`.
-/
import CppUtil.Proofs.EpochSeq
import CppUtil.Gen.Thread
import CppUtil.Props.EpochListsThm
import CppUtil.Props.EpochProtoThm

namespace CppUtil.Props
open CppUtil CppUtil.Epoch

/-- tie G: the documented initial epoch (= the list-node capacity) and the minimum epoch -/
theorem c16_initial : Gen.epochConsts.kInitialEpoch = Gen.epochConsts.kCapacity ∧
    Gen.epochConsts.kInitialEpoch = 256 ∧ Gen.epochConsts.kMinEpoch = 0 := by decide

/-- **min ≤ cur**: the stored minimum (last element of the published vector) never exceeds the epoch that
    is current before the forward, hence never exceeds any later current epoch -/
theorem c16_min_le_cur (cur : Nat) (pins : List Nat) (m : Nat)
    (hm : (sortDescDedup ([cur + 1, cur] ++ pins)).getLast? = some m) : m ≤ cur := by
  have hs := sortDescDedup_spec ([cur + 1, cur] ++ pins)
  exact desc_last_le _ hs.1 m hm cur ((hs.2 cur).mpr (by simp))

/-- the published vector always contains the new and the previous epoch -/
theorem c16_contains_cur_next (cur : Nat) (pins : List Nat) :
    cur + 1 ∈ sortDescDedup ([cur + 1, cur] ++ pins) ∧ cur ∈ sortDescDedup ([cur + 1, cur] ++ pins) := by
  have hs := sortDescDedup_spec ([cur + 1, cur] ++ pins)
  exact ⟨(hs.2 _).mpr (by simp), (hs.2 _).mpr (by simp)⟩

/-- **a destroyed guard stops pinning**: a forward whose scan finds no pinned epoch publishes exactly
    `[cur+1, cur]`, and the minimum becomes `cur` (= new current − 1) -/
theorem c16_quiescent (cur : Nat) :
    sortDescDedup ([cur + 1, cur] ++ []) = [cur + 1, cur] ∧
    (sortDescDedup ([cur + 1, cur] ++ [])).getLast? = some cur := by
  have := quiescent_list cur
  simp only [List.append_nil]
  rw [this]; simp

/-- pinned epochs are at most the current epoch (an entered epoch was read from the global epoch), so the
    head of the published vector is the new epoch -/
theorem c16_head_is_new (cur : Nat) (pins : List Nat) (hp : ∀ p ∈ pins, p ≤ cur) :
    (sortDescDedup ([cur + 1, cur] ++ pins)).head? = some (cur + 1) := by
  apply published_head
  · simp
  · intro y hy
    simp only [List.cons_append, List.nil_append, List.mem_cons] at hy
    rcases hy with rfl | rfl | hy
    · omega
    · omega
    · have := hp y hy; omega

end CppUtil.Props
