/-
  MCSLock — protocol theorems at the regenerated parameters (constants, and the fact that LockSIX / LockX
  publish the predecessor's flags with a read-modify-write).  For every number of locks and threads, every
  program of S / SIX / X requests, conversions, releases and thread exits, and every interleaving of their
  atomic steps (the model `Mcs.step` replayed against the implementation by the correspondence check),
  within the capacity of the word fields (node numbers < 2^47, requests < 2^15):
    * `mcs_exclusion`  (C01, C10): grants held at the same time on one lock are compatible;
    * `mcs_no_use_after_free` (C12): no step touches a freed queue node;
    * `mcs_invariant`: the full protocol invariant (queue of groups, meaning of every lock and node word,
      node ownership) holds in every reachable state.
-/
import CppUtil.Proofs.McsLive
import CppUtil.Props.McsWordsGen

namespace CppUtil.Props
open CppUtil CppUtil.Mcs

def mcsParams : Mcs.Params := { C := Gen.mcsConsts, ord := Gen.mcsOrders, publishStore := Gen.mcsPublishIsStore }

/-- tie G: the publish step is a read-modify-write in the source (the plain store was defect F3) -/
theorem mcs_publish_is_rmw : mcsParams.publishStore = false := rfl

abbrev mcsPb : Nat := 2 ^ 47
abbrev mcsCb : Nat := 2 ^ 15

theorem mcs_invariant (nlocks nthreads : Nat) (acts : List Act)
    (hr : RunOK mcsPb mcsCb mcsParams (mkSt nlocks nthreads) acts) :
    InvX McsWordsGen.Wc mcsParams mcsPb mcsCb (run mcsParams (mkSt nlocks nthreads) acts)
      (ghostRun mcsParams (mkSt nlocks nthreads) (fun _ => []) acts) :=
  invx_run McsWordsGen.wordSpecs mcs_publish_is_rmw acts _ _
    (invx_init nlocks nthreads (by decide) (by decide)) hr

/-- **C01 / C10 for MCSLock** -/
theorem mcs_exclusion (nlocks nthreads : Nat) (acts : List Act)
    (hr : RunOK mcsPb mcsCb mcsParams (mkSt nlocks nthreads) acts)
    (i j : Nat) (a b : Agent) (m m' : Mode) (hij : i ≠ j)
    (hi : (run mcsParams (mkSt nlocks nthreads) acts).agents[i]? = some a)
    (hj : (run mcsParams (mkSt nlocks nthreads) acts).agents[j]? = some b) (hlk : a.lk = b.lk)
    (hga : a.loc.grant? = some m) (hgb : b.loc.grant? = some m') : conflict m m' = false :=
  exclusion (mcs_invariant nlocks nthreads acts hr).inv hij hi hj hlk hga hgb

/-- **C12 for MCSLock (first half)**: the ghost counter of accesses to freed nodes stays zero -/
theorem mcs_no_use_after_free (nlocks nthreads : Nat) (acts : List Act)
    (hr : RunOK mcsPb mcsCb mcsParams (mkSt nlocks nthreads) acts) :
    (run mcsParams (mkSt nlocks nthreads) acts).uaf = 0 :=
  (mcs_invariant nlocks nthreads acts hr).inv.uaf

/-- **C10 for MCSLock**: while a SIX or X grant is held, no other SIX / X grant exists on that lock -/
theorem mcs_single_sixx (nlocks nthreads : Nat) (acts : List Act)
    (hr : RunOK mcsPb mcsCb mcsParams (mkSt nlocks nthreads) acts)
    (i j : Nat) (a b : Agent) (m m' : Mode) (hij : i ≠ j)
    (hi : (run mcsParams (mkSt nlocks nthreads) acts).agents[i]? = some a)
    (hj : (run mcsParams (mkSt nlocks nthreads) acts).agents[j]? = some b) (hlk : a.lk = b.lk)
    (hga : a.loc.grant? = some m) (hgb : b.loc.grant? = some m') (hm : m ≠ .S) : m' = .S := by
  have := mcs_exclusion nlocks nthreads acts hr i j a b m m' hij hi hj hlk hga hgb
  cases m <;> cases m' <;> simp_all [conflict]

theorem mcs_invariant_live (nlocks nthreads : Nat) (acts : List Act)
    (hr : RunOK mcsPb mcsCb mcsParams (mkSt nlocks nthreads) acts) :
    InvL McsWordsGen.Wc mcsParams mcsPb mcsCb (run mcsParams (mkSt nlocks nthreads) acts)
      (ghostRun mcsParams (mkSt nlocks nthreads) (fun _ => []) acts) :=
  invl_run McsWordsGen.wordSpecs mcs_publish_is_rmw acts _ _
    (invl_init nlocks nthreads (by decide) (by decide)) hr

/-- **C12 for MCSLock (second half)**: in every reachable state every live queue node is either the spare
    node in some thread's cache or the node of an outstanding (unfinished) request — so the number of live
    nodes never exceeds #threads + #outstanding requests, and nothing is lost -/
theorem mcs_live_nodes_accounted (nlocks nthreads : Nat) (acts : List Act)
    (hr : RunOK mcsPb mcsCb mcsParams (mkSt nlocks nthreads) acts) (k : Nat)
    (hk : nodeLive (run mcsParams (mkSt nlocks nthreads) acts) k = true) :
    (∃ t : Nat, (run mcsParams (mkSt nlocks nthreads) acts).tls[t]? = some (some k)) ∨
    (∃ (i : Nat) (a : Agent), (run mcsParams (mkSt nlocks nthreads) acts).agents[i]? = some a ∧
      a.loc ≠ Loc.done ∧ a.qnode = k) :=
  live_accounted (mcs_invariant_live nlocks nthreads acts hr) k hk

/-- … and once every request has finished the only live nodes are cached spares, which thread exit deletes -/
theorem mcs_no_leak_at_quiescence (nlocks nthreads : Nat) (acts : List Act)
    (hr : RunOK mcsPb mcsCb mcsParams (mkSt nlocks nthreads) acts)
    (hdone : ∀ a ∈ (run mcsParams (mkSt nlocks nthreads) acts).agents, a.loc = Loc.done) (k : Nat)
    (hk : nodeLive (run mcsParams (mkSt nlocks nthreads) acts) k = true) :
    ∃ t : Nat, (run mcsParams (mkSt nlocks nthreads) acts).tls[t]? = some (some k) :=
  quiescent_cached (mcs_invariant_live nlocks nthreads acts hr) hdone k hk

/-! ### a decidable form of the side condition, and non-vacuity -/

def fitsB (pb cb : Nat) (s : St) : Bool := s.nodes.length < pb && s.agents.length + 1 < cb

def actOKb (s : St) : Act → Bool
  | .spawn tid lk _ => tid < s.tls.length && lk < s.locks.length
  | .release _ tid => tid < s.tls.length
  | .upgrade _ tid => tid < s.tls.length
  | .downgrade _ tid => tid < s.tls.length
  | _ => true

def runOKb (pb cb : Nat) (P : Mcs.Params) : St → List Act → Bool
  | _, [] => true
  | s, act :: rest => actOKb s act && fitsB pb cb (step P s act) && runOKb pb cb P (step P s act) rest

theorem runOK_of_b (pb cb : Nat) (P : Mcs.Params) : ∀ (acts : List Act) (s : St),
    runOKb pb cb P s acts = true → RunOK pb cb P s acts := by
  intro acts
  induction acts with
  | nil => intro _ _; trivial
  | cons act rest ih =>
    intro s h
    simp only [runOKb, Bool.and_eq_true] at h
    refine ⟨?_, ?_, ih _ h.2⟩
    · cases act <;> simp_all [actOKb, ActOK]
    · simpa [fitsB, Fits] using h.1.2

/-- a concrete run: thread 0 takes S, thread 1 takes SIX next to it, thread 2 queues for X and is not granted -/
def mcsDemoActs : List Act :=
  [.spawn 0 0 .S, .atom 0, .atom 0, .atom 0,
   .spawn 1 0 .SIX, .atom 1, .atom 1, .atom 1, .atom 1, .atom 1,
   .spawn 2 0 .X, .atom 2, .atom 2, .atom 2, .atom 2, .atom 2, .atom 2]

example : runOKb mcsPb mcsCb mcsParams (mkSt 1 3) mcsDemoActs = true := by decide +kernel

example : ((run mcsParams (mkSt 1 3) mcsDemoActs).agents.map (fun a => a.loc.grant?)) = [some .S, some .SIX, none] := by
  decide +kernel

end CppUtil.Props
