/-
  C10 at the level of the guard classes: while a guard of class SIX or X owns its grant — in particular from the moment
  `LockSIX` returned, through `UpgradeToX`, until the X guard dies, and from `LockX` through `DowngradeToSIX` — no other
  guard of class SIX or X owns a grant on the same lock.  Corollary of `c01_client_guards_compatible_*` (SIX-SIX, SIX-X,
  X-X conflict); the continuity of the grant across the conversion itself is `c10_no_gap` (core) together with the guard
  algebra (`Stage`: between the source giving up the grant and the result taking it, the request is the one of the
  running call and keeps its grant).
-/
import CppUtil.Props.C10
import CppUtil.Props.C01Client

namespace CppUtil.Props
open CppUtil CppUtil.WLock CppUtil.WClient

theorem sixx_conflict (k k' : GKind) (h : (k = .SIX ∨ k = .X) ∧ (k' = .SIX ∨ k' = .X)) : conflict k.gmode k'.gmode = true := by
  rcases h with ⟨h1 | h1, h2 | h2⟩ <;> subst h1 <;> subst h2 <;> rfl

/-- no two SIX / X guards own grants on the same PessimisticLock at the same time -/
theorem c10_client_no_other_sixx_pess (r : Nat) {vo : Nat → Nat} {c0 c : Client} (hi : Initial c0) (hwf : WF vo c0)
    (hr : ReachableC (Gen.pess r) c0 c) (v v' lk a a' : Nat) (hne : v ≠ v')
    (h : own c v = some (lk, a)) (h' : own c v' = some (lk, a'))
    (hk : (kindOf c v = .SIX ∨ kindOf c v = .X) ∧ (kindOf c v' = .SIX ∨ kindOf c v' = .X))
    (hb : (getThread c (vo v)).pend ≠ .none ∨ (getThread c (vo v)).finished = true)
    (hb' : (getThread c (vo v')).pend ≠ .none ∨ (getThread c (vo v')).finished = true)
    (hcap : (lockSt c lk).agents.length < 2 ^ 62) : False := by
  have := c01_client_guards_compatible_pess r hi hwf hr v v' lk a a' hne h h' hb hb' hcap
  rw [sixx_conflict _ _ hk] at this; cases this

/-- the same for OptimisticLock -/
theorem c10_client_no_other_sixx_opt (r : Nat) {vo : Nat → Nat} {c0 c : Client} (hi : Initial c0) (hwf : WF vo c0)
    (hr : ReachableC (Gen.opt r) c0 c) (v v' lk a a' : Nat) (hne : v ≠ v')
    (h : own c v = some (lk, a)) (h' : own c v' = some (lk, a'))
    (hk : (kindOf c v = .SIX ∨ kindOf c v = .X) ∧ (kindOf c v' = .SIX ∨ kindOf c v' = .X))
    (hb : (getThread c (vo v)).pend ≠ .none ∨ (getThread c (vo v)).finished = true)
    (hb' : (getThread c (vo v')).pend ≠ .none ∨ (getThread c (vo v')).finished = true)
    (hcap : (lockSt c lk).agents.length < 2 ^ 30) : False := by
  have := c01_client_guards_compatible_opt r hi hwf hr v v' lk a a' hne h h' hb hb' hcap
  rw [sixx_conflict _ _ hk] at this; cases this

end CppUtil.Props
