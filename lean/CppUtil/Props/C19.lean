/-
  C19 — generators are pure functions of their parameters and the engine.
  Thin by nature: in the model a sample *is* a function of (CDF, variate) — `search` has no state —
  and the CDF is a function of (n, alpha).  What the property adds about the C++ classes is checked by
  (i) tie G class facts regenerated from the source: `operator()` is `const`; the only static /
  thread_local / mutable object is the `uniform_real_distribution`; both constructors throw on
  `max < min`; every data member is held by value (defaulted copies are deep); (ii) the correspondence run: copies, moved-to and equal-parameter instances and threads
  sharing one const generator produce the sequences the model's function of the recomputed variates
  predicts.
-/
import CppUtil.Model.Zipf
import CppUtil.Gen.Zipf

namespace CppUtil.Props
open CppUtil CppUtil.Zipf

/-- tie G: class facts of the current source -/
theorem c19_class_facts : Gen.zipfCallConst = true ∧ Gen.zipfOnlyDistStatic = true ∧ Gen.zipfCtorChecks = 2 ∧
    Gen.zipfValueMembersOnly = true := by
  decide

/-- two generators with equal tables return equal values for equal variates (no hidden state): stated
    for completeness — it is congruence -/
theorem c19_function_of_table_and_variate {α : Type} (cdf₁ cdf₂ : Int → α) (lt : α → α → Bool) (n : Int) (u : α)
    (h : cdf₁ = cdf₂) : search cdf₁ lt n u = search cdf₂ lt n u := by rw [h]

/-- the table is a function of the parameters only -/
theorem c19_table_function_of_params {α : Type} (A B : Arith α) (n : Nat) (h : A = B) :
    exactTable A n = exactTable B n := by rw [h]

end CppUtil.Props
