/-
  C02 — no deadlock or lost hand-off (PessimisticLock, OptimisticLock).

  What is proved here (for every reachable state of the model at the regenerated parameters):
  (a) *waiting is justified*: a blocked request is waiting for a **live** conflicting grant, never
      for a release that has already happened (`c02_blocked_*`);
  (b) *solo progress*: a request whose admission test holds on the current word is granted by its
      next two steps when nobody interferes (`c02_solo_acquire`);
  (c) *quiescent ⇒ free*: with no live grant, a fresh `LockX` passes its test at once (`c02_quiescent_free_*`).
  Together: no reachable state is doomed — every waiter either can proceed or is waiting for a holder
  that is itself not blocked (holders release without waiting: `releaseStep` is always enabled for a
  `held` agent).  The step from there to "every fair schedule of a finite program terminates" is the
  standard measure argument (finitely many API calls, each successful CAS / release decreases the
  number of remaining calls); it is not mechanised — see DESIGN.md §6 C02.
-/
import CppUtil.Props.C01
import CppUtil.Proofs.WLockMore

namespace CppUtil.Props
open CppUtil CppUtil.WLock

theorem c02_blocked_lock_pess (r : Nat) (acts : List Act) (s : St)
    (h : run (Gen.pess r) init acts = some s) (hcap : s.agents.length < 2 ^ 62) (m : Mode)
    (hb : (Gen.pess r).lockGuard m s.w = false) :
    ∃ j : Nat, ∃ l : Loc, ∃ mj, s.agents[j]? = some l ∧ l.grant? = some mj ∧ conflict m mj = true :=
  blocked_lock_has_conflicting_holder (pess_specs r)
    (inv_reachable (pess_specs r) ⟨acts, h⟩ (by simpa [pessDecoder] using hcap)) m hb

theorem c02_blocked_lock_opt (r : Nat) (acts : List Act) (s : St)
    (h : run (Gen.opt r) init acts = some s) (hcap : s.agents.length < 2 ^ 30) (m : Mode)
    (hb : (Gen.opt r).lockGuard m s.w = false) :
    ∃ j : Nat, ∃ l : Loc, ∃ mj, s.agents[j]? = some l ∧ l.grant? = some mj ∧ conflict m mj = true :=
  blocked_lock_has_conflicting_holder (opt_specs r)
    (inv_reachable (opt_specs r) ⟨acts, h⟩ (by simpa [optDecoder] using hcap)) m hb

theorem c02_blocked_upgrade_pess (r : Nat) (acts : List Act) (s : St)
    (h : run (Gen.pess r) init acts = some s) (hcap : s.agents.length < 2 ^ 62)
    (i : Nat) (l : Loc) (hi : s.agents[i]? = some l) (hl : l.grant? = some .SIX)
    (hb : (Gen.pess r).upgGuard s.w = false) :
    ∃ j : Nat, ∃ l' : Loc, s.agents[j]? = some l' ∧ l'.grant? = some Mode.S :=
  blocked_upgrade_has_reader (pess_specs r)
    (inv_reachable (pess_specs r) ⟨acts, h⟩ (by simpa [pessDecoder] using hcap)) hi hl hb

theorem c02_blocked_upgrade_opt (r : Nat) (acts : List Act) (s : St)
    (h : run (Gen.opt r) init acts = some s) (hcap : s.agents.length < 2 ^ 30)
    (i : Nat) (l : Loc) (hi : s.agents[i]? = some l) (hl : l.grant? = some .SIX)
    (hb : (Gen.opt r).upgGuard s.w = false) :
    ∃ j : Nat, ∃ l' : Loc, s.agents[j]? = some l' ∧ l'.grant? = some Mode.S :=
  blocked_upgrade_has_reader (opt_specs r)
    (inv_reachable (opt_specs r) ⟨acts, h⟩ (by simpa [optDecoder] using hcap)) hi hl hb

theorem c02_blocked_reader_opt (r : Nat) (acts : List Act) (s : St)
    (h : run (Gen.opt r) init acts = some s) (hcap : s.agents.length < 2 ^ 30)
    (hb : (Gen.opt r).noX s.w = false) :
    ∃ j : Nat, ∃ l : Loc, s.agents[j]? = some l ∧ l.grant? = some Mode.X :=
  blocked_reader_has_writer (opt_specs r)
    (inv_reachable (opt_specs r) ⟨acts, h⟩ (by simpa [optDecoder] using hcap)) hb

/-- solo progress (any parameters) -/
theorem c02_solo_acquire (P : WParams) (s : St) (i : Nat) (m : Mode)
    (hi : s.agents[i]? = some (.acqLoad m)) (hg : P.lockGuard m s.w = true) :
    ∃ s2, run P s [.atom i none false, .atom i none false] = some s2 ∧
      s2.agents[i]? = some (.held m s.w) := solo_acquire hi hg

theorem c02_quiescent_free_pess (r : Nat) (acts : List Act) (s : St)
    (h : run (Gen.pess r) init acts = some s) (hcap : s.agents.length < 2 ^ 62)
    (hq : ∀ l ∈ s.agents, l.grant? = none) :
    s.w.getLsbD 63 = false ∧ s.w.getLsbD 62 = false ∧ (s.w.extractLsb' 0 62).toNat = 0 ∧
    (Gen.pess r).lockGuard .X s.w = true :=
  quiescent_free (pess_specs r)
    (inv_reachable (pess_specs r) ⟨acts, h⟩ (by simpa [pessDecoder] using hcap)) hq

theorem c02_quiescent_free_opt (r : Nat) (acts : List Act) (s : St)
    (h : run (Gen.opt r) init acts = some s) (hcap : s.agents.length < 2 ^ 30)
    (hq : ∀ l ∈ s.agents, l.grant? = none) :
    s.w.getLsbD 63 = false ∧ s.w.getLsbD 62 = false ∧ (s.w.extractLsb' 32 30).toNat = 0 ∧
    (Gen.opt r).lockGuard .X s.w = true :=
  quiescent_free (opt_specs r)
    (inv_reachable (opt_specs r) ⟨acts, h⟩ (by simpa [optDecoder] using hcap)) hq

/-- non-vacuity: after everybody released (X section with SetVersion(7), then release) the lock is free -/
example : ∃ s, run (Gen.opt 1) init
    [.spawn, .start 0 (.lock .X), .atom 0 none false, .atom 0 none false, .release 0 7] = some s ∧
    (∀ l ∈ s.agents, l.grant? = none) ∧ s.w = 7 := ⟨_, rfl, by decide, rfl⟩

end CppUtil.Props
