/-
  C02 — no deadlock or lost hand-off (PessimisticLock, OptimisticLock).

  What is proved here (for every reachable state of the model at the regenerated parameters):
  (a) *waiting is justified*: a blocked request is waiting for a **live** conflicting grant, never
      for a release that has already happened (`c02_blocked_*`);
  (b) *solo progress*: a request whose admission test holds on the current word is granted by its
      next two steps when nobody interferes (`c02_solo_acquire`);
  (c) *quiescent ⇒ free*: with no live grant, a fresh `LockX` passes its test at once (`c02_quiescent_free_*`).
  (d) *fair termination* (`c02_fair_termination_pess/_opt`, `Proofs/WLockLive.lean`): in the closed system "k agents, each
      requests its mode once and releases it" (any k below the counter capacity, any modes, any published versions), every
      schedule that consists of more than 3k(2k+1) rounds — stretches in which every agent is chosen at least once, which
      every fair scheduler produces — ends with every request granted and released and the lock free again.  By a
      potential that no action raises and that, while somebody is unfinished, some agent's next action lowers.
      (Atomic steps read the current word and the weak CAS does not fail spuriously; conversions are not in the closed
      system.)
  Together: no reachable state is doomed — every waiter either can proceed or is waiting for a holder
  that is itself not blocked (holders release without waiting: `releaseStep` is always enabled for a
  `held` agent).  The step from there to "every fair schedule of a finite program terminates" is the
  standard measure argument (finitely many API calls, each successful CAS / release decreases the
  number of remaining calls); it is not mechanised — see DESIGN.md §6 C02.
-/
import CppUtil.Props.C01
import CppUtil.Proofs.WLockMore
import CppUtil.Proofs.WLockLive
import CppUtil.Proofs.WLockLive2
import CppUtil.Proofs.WLockLive3
import CppUtil.Proofs.McsProgress
import CppUtil.Props.McsProto

namespace CppUtil.Props
open CppUtil CppUtil.WLock

theorem c02_blocked_lock_pess (r : Nat) (acts : List Act) (s : St)
    (h : run (Gen.pess r) init acts = some s) (hcap : s.agents.length < 2 ^ 62) (m : Mode)
    (hb : (Gen.pess r).lockGuard m s.w = false) :
    ∃ j : Nat, ∃ l : Loc, ∃ mj, s.agents[j]? = some l ∧ l.grant? = some mj ∧ conflict m mj = true :=
  blocked_lock_has_conflicting_holder (pess_specs r)
    (inv_reachable (pess_specs r) ⟨acts, h⟩ (by simpa [pessDecoder] using hcap)) m hb

theorem c02_blocked_lock_opt (r : Nat) (acts : List Act) (s : St)
    (h : run (Gen.opt r) init acts = some s) (hcap : s.agents.length < 2 ^ 30) (m : Mode)
    (hb : (Gen.opt r).lockGuard m s.w = false) :
    ∃ j : Nat, ∃ l : Loc, ∃ mj, s.agents[j]? = some l ∧ l.grant? = some mj ∧ conflict m mj = true :=
  blocked_lock_has_conflicting_holder (opt_specs r)
    (inv_reachable (opt_specs r) ⟨acts, h⟩ (by simpa [optDecoder] using hcap)) m hb

theorem c02_blocked_upgrade_pess (r : Nat) (acts : List Act) (s : St)
    (h : run (Gen.pess r) init acts = some s) (hcap : s.agents.length < 2 ^ 62)
    (i : Nat) (l : Loc) (hi : s.agents[i]? = some l) (hl : l.grant? = some .SIX)
    (hb : (Gen.pess r).upgGuard s.w = false) :
    ∃ j : Nat, ∃ l' : Loc, s.agents[j]? = some l' ∧ l'.grant? = some Mode.S :=
  blocked_upgrade_has_reader (pess_specs r)
    (inv_reachable (pess_specs r) ⟨acts, h⟩ (by simpa [pessDecoder] using hcap)) hi hl hb

theorem c02_blocked_upgrade_opt (r : Nat) (acts : List Act) (s : St)
    (h : run (Gen.opt r) init acts = some s) (hcap : s.agents.length < 2 ^ 30)
    (i : Nat) (l : Loc) (hi : s.agents[i]? = some l) (hl : l.grant? = some .SIX)
    (hb : (Gen.opt r).upgGuard s.w = false) :
    ∃ j : Nat, ∃ l' : Loc, s.agents[j]? = some l' ∧ l'.grant? = some Mode.S :=
  blocked_upgrade_has_reader (opt_specs r)
    (inv_reachable (opt_specs r) ⟨acts, h⟩ (by simpa [optDecoder] using hcap)) hi hl hb

theorem c02_blocked_reader_opt (r : Nat) (acts : List Act) (s : St)
    (h : run (Gen.opt r) init acts = some s) (hcap : s.agents.length < 2 ^ 30)
    (hb : (Gen.opt r).noX s.w = false) :
    ∃ j : Nat, ∃ l : Loc, s.agents[j]? = some l ∧ l.grant? = some Mode.X :=
  blocked_reader_has_writer (opt_specs r)
    (inv_reachable (opt_specs r) ⟨acts, h⟩ (by simpa [optDecoder] using hcap)) hb

/-- solo progress (any parameters) -/
theorem c02_solo_acquire (P : WParams) (s : St) (i : Nat) (m : Mode)
    (hi : s.agents[i]? = some (.acqLoad m)) (hg : P.lockGuard m s.w = true) :
    ∃ s2, run P s [.atom i none false, .atom i none false] = some s2 ∧
      s2.agents[i]? = some (.held m s.w) := solo_acquire hi hg

theorem c02_quiescent_free_pess (r : Nat) (acts : List Act) (s : St)
    (h : run (Gen.pess r) init acts = some s) (hcap : s.agents.length < 2 ^ 62)
    (hq : ∀ l ∈ s.agents, l.grant? = none) :
    s.w.getLsbD 63 = false ∧ s.w.getLsbD 62 = false ∧ (s.w.extractLsb' 0 62).toNat = 0 ∧
    (Gen.pess r).lockGuard .X s.w = true :=
  quiescent_free (pess_specs r)
    (inv_reachable (pess_specs r) ⟨acts, h⟩ (by simpa [pessDecoder] using hcap)) hq

theorem c02_quiescent_free_opt (r : Nat) (acts : List Act) (s : St)
    (h : run (Gen.opt r) init acts = some s) (hcap : s.agents.length < 2 ^ 30)
    (hq : ∀ l ∈ s.agents, l.grant? = none) :
    s.w.getLsbD 63 = false ∧ s.w.getLsbD 62 = false ∧ (s.w.extractLsb' 32 30).toNat = 0 ∧
    (Gen.opt r).lockGuard .X s.w = true :=
  quiescent_free (opt_specs r)
    (inv_reachable (opt_specs r) ⟨acts, h⟩ (by simpa [optDecoder] using hcap)) hq

/-- non-vacuity: after everybody released (X section with SetVersion(7), then release) the lock is free -/
example : ∃ s, run (Gen.opt 1) init
    [.spawn, .start 0 (.lock .X), .atom 0 none false, .atom 0 none false, .release 0 7] = some s ∧
    (∀ l ∈ s.agents, l.grant? = none) ∧ s.w = 7 := ⟨_, rfl, by decide, rfl⟩

/-! ### MCSLock: waiting is justified (every reachable state)

  A request of the MCS lock waits on one of four conditions.  In every reachable state, a condition that
  fails *now* has a witness — an unfinished request ahead of the waiter — and the head of the first group is
  never held up.  (The waits for a successor's link, `spinNext`, end by the successor's own next two steps,
  which are never conditional.)  F3, the lost hand-over of the pinned tree, contradicts `c02_mcs_blocked_xSpin`:
  there the waiter's node word kept a flag nobody owned any more. -/

theorem c02_mcs_blocked_xSpin (nlocks nthreads : Nat) (acts : List Mcs.Act)
    (hr : Mcs.RunOK mcsPb mcsCb mcsParams (Mcs.mkSt nlocks nthreads) acts) (i : Nat) (a : Mcs.Agent)
    (hi : (Mcs.run mcsParams (Mcs.mkSt nlocks nthreads) acts).agents[i]? = some a) (m : Mode)
    (hloc : a.loc = .xSpin m)
    (hfail : Mcs.spinOk mcsParams m (Mcs.nodeW (Mcs.run mcsParams (Mcs.mkSt nlocks nthreads) acts) a.qnode) = false) :
    ∃ (j : Nat) (G Pg : Mcs.Grp),
      (Mcs.ghostRun mcsParams (Mcs.mkSt nlocks nthreads) (fun _ => []) acts a.lk)[j + 1]? = some G ∧ G.head = some i ∧
      (Mcs.ghostRun mcsParams (Mcs.mkSt nlocks nthreads) (fun _ => []) acts a.lk)[j]? = some Pg ∧
      ∃ k b, Mcs.TiedTo (Mcs.run mcsParams (Mcs.mkSt nlocks nthreads) acts) a.lk Pg k b :=
  Mcs.blocked_xSpin McsWordsGen.wordSpecs (mcs_invariant nlocks nthreads acts hr).inv hi m hloc hfail

theorem c02_mcs_front_passes (nlocks nthreads : Nat) (acts : List Mcs.Act)
    (hr : Mcs.RunOK mcsPb mcsCb mcsParams (Mcs.mkSt nlocks nthreads) acts) (i : Nat) (a : Mcs.Agent)
    (hi : (Mcs.run mcsParams (Mcs.mkSt nlocks nthreads) acts).agents[i]? = some a) (m : Mode)
    (hloc : a.loc = .xSpin m) (G : Mcs.Grp)
    (h0 : (Mcs.ghostRun mcsParams (Mcs.mkSt nlocks nthreads) (fun _ => []) acts a.lk)[0]? = some G)
    (hh : G.head = some i) :
    Mcs.spinOk mcsParams m (Mcs.nodeW (Mcs.run mcsParams (Mcs.mkSt nlocks nthreads) acts) a.qnode) = true :=
  Mcs.front_passes McsWordsGen.wordSpecs (mcs_invariant nlocks nthreads acts hr).inv hi m hloc h0 hh

theorem c02_mcs_blocked_sSpinLock (nlocks nthreads : Nat) (acts : List Mcs.Act)
    (hr : Mcs.RunOK mcsPb mcsCb mcsParams (Mcs.mkSt nlocks nthreads) acts) (i : Nat) (a : Mcs.Agent)
    (hi : (Mcs.run mcsParams (Mcs.mkSt nlocks nthreads) acts).agents[i]? = some a) (hloc : a.loc = .sSpinLock)
    (hsame : (Mcs.lockW (Mcs.run mcsParams (Mcs.mkSt nlocks nthreads) acts) a.lk &&& mcsParams.C.kPtrMask) = a.nxt)
    (hfail : (Mcs.lockW (Mcs.run mcsParams (Mcs.mkSt nlocks nthreads) acts) a.lk &&& mcsParams.C.kXMask) ≠
      mcsParams.C.kNoLocks) :
    ∃ (j : Nat) (G : Mcs.Grp),
      (Mcs.ghostRun mcsParams (Mcs.mkSt nlocks nthreads) (fun _ => []) acts a.lk)[j]? = some G ∧ G.node = a.qnode ∧
      (Mcs.hmode (Mcs.run mcsParams (Mcs.mkSt nlocks nthreads) acts) G).isSome ∧
      ∃ k b, Mcs.TiedTo (Mcs.run mcsParams (Mcs.mkSt nlocks nthreads) acts) a.lk G k b :=
  Mcs.blocked_sSpinLock McsWordsGen.wordSpecs (mcs_invariant nlocks nthreads acts hr).inv hi hloc hsame hfail

theorem c02_mcs_blocked_drain (nlocks nthreads : Nat) (acts : List Mcs.Act)
    (hr : Mcs.RunOK mcsPb mcsCb mcsParams (Mcs.mkSt nlocks nthreads) acts) (i : Nat) (a : Mcs.Agent)
    (hi : (Mcs.run mcsParams (Mcs.mkSt nlocks nthreads) acts).agents[i]? = some a)
    (hloc : a.loc = .rel .SIX .load0 ∨ a.loc = .upg .load0)
    (hfail : (Mcs.nodeW (Mcs.run mcsParams (Mcs.mkSt nlocks nthreads) acts) a.qnode &&& mcsParams.C.kSMask) ≠
      mcsParams.C.kNoLocks) :
    ∃ G0 : Mcs.Grp, (Mcs.ghostRun mcsParams (Mcs.mkSt nlocks nthreads) (fun _ => []) acts a.lk)[0]? = some G0 ∧
      Mcs.hmode (Mcs.run mcsParams (Mcs.mkSt nlocks nthreads) acts) G0 = none ∧
      ∃ k b, Mcs.TiedTo (Mcs.run mcsParams (Mcs.mkSt nlocks nthreads) acts) a.lk G0 k b :=
  Mcs.blocked_drain McsWordsGen.wordSpecs (mcs_invariant nlocks nthreads acts hr).inv hi hloc hfail

/-- **every request is eventually granted and every call returns — fair termination, PessimisticLock.**
    `k` agents start on a free lock; agent `i` requests `modes[i]` once and releases it.  For every schedule made of more
    than `3k(2k+1)` rounds (every agent chosen at least once per round; the order and the repetitions are arbitrary) all
    agents are done at the end, and a fresh exclusive request passes its admission test at once. -/
theorem c02_fair_termination_pess (r k : Nat) (hk : k < 2 ^ 62) (modes : List Mode) (nvs : List (BitVec 32))
    (segs : List (List Nat)) (hall : ∀ seg ∈ segs, ∀ j, j < k → j ∈ seg) (hlen : 3 * k * (2 * k + 1) < segs.length) :
    (∀ l ∈ (execW (Gen.pess r) modes nvs (initK k) segs.flatten).agents, ∃ w, l = Loc.done w) ∧
    (Gen.pess r).lockGuard .X (execW (Gen.pess r) modes nvs (initK k) segs.flatten).w = true := by
  have hS := pess_specs r
  have h0 : WL (Gen.pess r) pessDecoder k (initK k) := wl_init hS k (by simpa [pessDecoder] using hk)
  have hfin := wl_exec hS modes nvs segs.flatten h0
  have hz := rounds_finish hS modes nvs segs h0 hall (by rw [psi_init]; exact hlen)
  have hdone := all_done_of_phases_zero hfin.closed hz
  refine ⟨hdone, ?_⟩
  have hq : ∀ l ∈ (execW (Gen.pess r) modes nvs (initK k) segs.flatten).agents, l.grant? = none := by
    intro l hl; obtain ⟨w, rfl⟩ := hdone l hl; rfl
  exact (quiescent_free hS hfin.inv hq).2.2.2

/-- the same for OptimisticLock (shared counter of 30 bits) -/
theorem c02_fair_termination_opt (r k : Nat) (hk : k < 2 ^ 30) (modes : List Mode) (nvs : List (BitVec 32))
    (segs : List (List Nat)) (hall : ∀ seg ∈ segs, ∀ j, j < k → j ∈ seg) (hlen : 3 * k * (2 * k + 1) < segs.length) :
    (∀ l ∈ (execW (Gen.opt r) modes nvs (initK k) segs.flatten).agents, ∃ w, l = Loc.done w) ∧
    (Gen.opt r).lockGuard .X (execW (Gen.opt r) modes nvs (initK k) segs.flatten).w = true := by
  have hS := opt_specs r
  have h0 : WL (Gen.opt r) optDecoder k (initK k) := wl_init hS k (by simpa [optDecoder] using hk)
  have hfin := wl_exec hS modes nvs segs.flatten h0
  have hz := rounds_finish hS modes nvs segs h0 hall (by rw [psi_init]; exact hlen)
  have hdone := all_done_of_phases_zero hfin.closed hz
  refine ⟨hdone, ?_⟩
  have hq : ∀ l ∈ (execW (Gen.opt r) modes nvs (initK k) segs.flatten).agents, l.grant? = none := by
    intro l hl; obtain ⟨w, rfl⟩ := hdone l hl; rfl
  exact (quiescent_free hS hfin.inv hq).2.2.2

/-- **fair termination with upgrades and downgrades, PessimisticLock.**  Every agent runs one of the scripts
    `Lock<m>; release`, `LockSIX; UpgradeToX; release`, `LockX; DowngradeToSIX; release` (any assignment of scripts to the
    `k` agents).  Every schedule of more than `6k(2k+1) + 2k` rounds ends with every agent done and the lock free. -/
theorem c02_fair_termination_conv_pess (r k : Nat) (hk : k < 2 ^ 62) (scs : List Script) (nvs : List (BitVec 32))
    (segs : List (List Nat)) (hall : ∀ seg ∈ segs, ∀ j, j < k → j ∈ seg)
    (hlen : 6 * k * (2 * k + 1) + 2 * k < segs.length) :
    (∀ l ∈ (exec2 (Gen.pess r) scs nvs (initK k) segs.flatten).agents, ∃ w, l = Loc.done w) ∧
    (Gen.pess r).lockGuard .X (exec2 (Gen.pess r) scs nvs (initK k) segs.flatten).w = true := by
  have hS := pess_specs r
  have h0 : WL2 (Gen.pess r) pessDecoder scs k (initK k) := wl2_init hS scs k (by simpa [pessDecoder] using hk)
  have hfin := wl2_exec hS scs nvs segs.flatten h0
  have hz := rounds_finish2 hS scs nvs segs h0 hall (Nat.lt_of_le_of_lt (psi2_init_le scs k) hlen)
  have hdone : ∀ l ∈ (exec2 (Gen.pess r) scs nvs (initK k) segs.flatten).agents, ∃ w, l = Loc.done w := by
    intro l hl
    obtain ⟨i, hi, hil⟩ := List.getElem_of_mem hl
    exact done_of_phases2_zero hfin.closed hz i l (by rw [List.getElem?_eq_getElem hi, hil])
  refine ⟨hdone, ?_⟩
  have hq : ∀ l ∈ (exec2 (Gen.pess r) scs nvs (initK k) segs.flatten).agents, l.grant? = none := by
    intro l hl; obtain ⟨w, rfl⟩ := hdone l hl; rfl
  exact (quiescent_free hS hfin.inv hq).2.2.2

/-- the same for OptimisticLock -/
theorem c02_fair_termination_conv_opt (r k : Nat) (hk : k < 2 ^ 30) (scs : List Script) (nvs : List (BitVec 32))
    (segs : List (List Nat)) (hall : ∀ seg ∈ segs, ∀ j, j < k → j ∈ seg)
    (hlen : 6 * k * (2 * k + 1) + 2 * k < segs.length) :
    (∀ l ∈ (exec2 (Gen.opt r) scs nvs (initK k) segs.flatten).agents, ∃ w, l = Loc.done w) ∧
    (Gen.opt r).lockGuard .X (exec2 (Gen.opt r) scs nvs (initK k) segs.flatten).w = true := by
  have hS := opt_specs r
  have h0 : WL2 (Gen.opt r) optDecoder scs k (initK k) := wl2_init hS scs k (by simpa [optDecoder] using hk)
  have hfin := wl2_exec hS scs nvs segs.flatten h0
  have hz := rounds_finish2 hS scs nvs segs h0 hall (Nat.lt_of_le_of_lt (psi2_init_le scs k) hlen)
  have hdone : ∀ l ∈ (exec2 (Gen.opt r) scs nvs (initK k) segs.flatten).agents, ∃ w, l = Loc.done w := by
    intro l hl
    obtain ⟨i, hi, hil⟩ := List.getElem_of_mem hl
    exact done_of_phases2_zero hfin.closed hz i l (by rw [List.getElem?_eq_getElem hi, hil])
  refine ⟨hdone, ?_⟩
  have hq : ∀ l ∈ (exec2 (Gen.opt r) scs nvs (initK k) segs.flatten).agents, l.grant? = none := by
    intro l hl; obtain ⟨w, rfl⟩ := hdone l hl; rfl
  exact (quiescent_free hS hfin.inv hq).2.2.2

theorem c02_closed_system_conv_steps (P : WParams) (scs : List Script) (nvs : List (BitVec 32)) (s : St) (i : Nat) :
    adv2 P scs nvs s i = s ∨ ∃ a e, step P s a = some (adv2 P scs nvs s i, e) :=
  adv2_is_step scs nvs s i

/-- non-vacuity with conversions: an upgrader, a reader and a downgrader on an OptimisticLock, 40 round-robin rounds -/
theorem c02_fair_termination_conv_nonvacuous :
    ((exec2 (Gen.opt 1) [.sixUp, .plain .S, .xDown] [] (initK 3) (List.replicate 40 [0, 1, 2]).flatten).agents.all
      (fun l => match l with | .done _ => true | _ => false)) = true := by
  decide +kernel

/-- **fair termination of client programs on one lock, PessimisticLock.**  `k` requests; request `i` runs `scs[i]`
    (`Lock<m>; release`, `LockSIX; UpgradeToX; release` or `LockX; DowngradeToSIX; release`) and may depend on an earlier
    request `preds[i]` — the previous request of the same thread — which must be done before it starts (no nesting on the
    lock).  Every schedule of more than `6k(2k+1) + 2k` rounds ends with every request done and the lock free. -/
theorem c02_fair_termination_programs_pess (r k : Nat) (hk : k < 2 ^ 62) (scs : List Script) (preds : List (Option Nat))
    (hpred : ∀ i j, preds.getD i none = some j → j < i) (nvs : List (BitVec 32))
    (segs : List (List Nat)) (hall : ∀ seg ∈ segs, ∀ j, j < k → j ∈ seg)
    (hlen : 6 * k * (2 * k + 1) + 2 * k < segs.length) :
    (∀ l ∈ (Seq.exec2 (Gen.pess r) scs preds nvs (initK k) segs.flatten).agents, ∃ w, l = Loc.done w) ∧
    (Gen.pess r).lockGuard .X (Seq.exec2 (Gen.pess r) scs preds nvs (initK k) segs.flatten).w = true := by
  have hS := pess_specs r
  have h1 := wl2_init hS scs k (by simpa [pessDecoder] using hk)
  have h0 : Seq.WL2 (Gen.pess r) pessDecoder scs k (initK k) := ⟨h1.inv, h1.closed, h1.len, h1.cap⟩
  have hfin := Seq.wl2_exec hS scs preds nvs segs.flatten h0
  have hpsi : Seq.psi2 scs (initK k) ≤ 6 * k * (2 * k + 1) + 2 * k := psi2_init_le scs k
  have hz := Seq.rounds_finish2 hS scs preds nvs hpred segs h0 hall (Nat.lt_of_le_of_lt hpsi hlen)
  have hdone : ∀ l ∈ (Seq.exec2 (Gen.pess r) scs preds nvs (initK k) segs.flatten).agents, ∃ w, l = Loc.done w := by
    intro l hl
    obtain ⟨i, hi, hil⟩ := List.getElem_of_mem hl
    exact Seq.done_of_phases2_zero hfin.closed hz i l (by rw [List.getElem?_eq_getElem hi, hil])
  refine ⟨hdone, ?_⟩
  have hq : ∀ l ∈ (Seq.exec2 (Gen.pess r) scs preds nvs (initK k) segs.flatten).agents, l.grant? = none := by
    intro l hl; obtain ⟨w, rfl⟩ := hdone l hl; rfl
  exact (quiescent_free hS hfin.inv hq).2.2.2

/-- the same for OptimisticLock -/
theorem c02_fair_termination_programs_opt (r k : Nat) (hk : k < 2 ^ 30) (scs : List Script) (preds : List (Option Nat))
    (hpred : ∀ i j, preds.getD i none = some j → j < i) (nvs : List (BitVec 32))
    (segs : List (List Nat)) (hall : ∀ seg ∈ segs, ∀ j, j < k → j ∈ seg)
    (hlen : 6 * k * (2 * k + 1) + 2 * k < segs.length) :
    (∀ l ∈ (Seq.exec2 (Gen.opt r) scs preds nvs (initK k) segs.flatten).agents, ∃ w, l = Loc.done w) ∧
    (Gen.opt r).lockGuard .X (Seq.exec2 (Gen.opt r) scs preds nvs (initK k) segs.flatten).w = true := by
  have hS := opt_specs r
  have h1 := wl2_init hS scs k (by simpa [optDecoder] using hk)
  have h0 : Seq.WL2 (Gen.opt r) optDecoder scs k (initK k) := ⟨h1.inv, h1.closed, h1.len, h1.cap⟩
  have hfin := Seq.wl2_exec hS scs preds nvs segs.flatten h0
  have hpsi : Seq.psi2 scs (initK k) ≤ 6 * k * (2 * k + 1) + 2 * k := psi2_init_le scs k
  have hz := Seq.rounds_finish2 hS scs preds nvs hpred segs h0 hall (Nat.lt_of_le_of_lt hpsi hlen)
  have hdone : ∀ l ∈ (Seq.exec2 (Gen.opt r) scs preds nvs (initK k) segs.flatten).agents, ∃ w, l = Loc.done w := by
    intro l hl
    obtain ⟨i, hi, hil⟩ := List.getElem_of_mem hl
    exact Seq.done_of_phases2_zero hfin.closed hz i l (by rw [List.getElem?_eq_getElem hi, hil])
  refine ⟨hdone, ?_⟩
  have hq : ∀ l ∈ (Seq.exec2 (Gen.opt r) scs preds nvs (initK k) segs.flatten).agents, l.grant? = none := by
    intro l hl; obtain ⟨w, rfl⟩ := hdone l hl; rfl
  exact (quiescent_free hS hfin.inv hq).2.2.2

theorem c02_programs_steps (P : WParams) (scs : List Script) (preds : List (Option Nat)) (nvs : List (BitVec 32)) (s : St) (i : Nat) :
    Seq.adv2 P scs preds nvs s i = s ∨ ∃ a e, step P s a = some (Seq.adv2 P scs preds nvs s i, e) :=
  Seq.adv2_is_step scs preds nvs s i

/-- non-vacuity: thread A = [LockX; unlock] then [LockS; unlock] (request 1 depends on request 0), thread B =
    [LockSIX; UpgradeToX; unlock]; 60 round-robin rounds on an OptimisticLock -/
theorem c02_fair_termination_programs_nonvacuous :
    ((Seq.exec2 (Gen.opt 1) [.plain .X, .plain .S, .sixUp] [none, some 0, none] [] (initK 3)
        (List.replicate 60 [0, 1, 2]).flatten).agents.all
      (fun l => match l with | .done _ => true | _ => false)) = true := by
  decide +kernel

/-- the closed system's actions are steps of the lock model (the model that is replayed against the implementation) -/
theorem c02_closed_system_steps (P : WParams) (modes : List Mode) (nvs : List (BitVec 32)) (s : St) (i : Nat) :
    adv P modes nvs s i = s ∨ ∃ a e, step P s a = some (adv P modes nvs s i, e) :=
  adv_is_step modes nvs s i

/-- non-vacuity: three agents (X, S, SIX) on a PessimisticLock, 64 round-robin rounds -/
theorem c02_fair_termination_nonvacuous :
    ((execW (Gen.pess 1) [.X, .S, .SIX] [] (initK 3) (List.replicate 64 [0, 1, 2]).flatten).agents.all
      (fun l => match l with | .done _ => true | _ => false)) = true := by
  decide +kernel

end CppUtil.Props
