/-
  Tie G obligations for the two word locks: the guard / update expressions of the model,
  evaluated at the constants regenerated from the source, implement the documented field
  layout (design_doc/lock.md).  Bit-level facts by `bv_decide` (each use adds one
  `…._native.bv_decide.ax_*` axiom, an instance of `Lean.ofReduceBool`; see DESIGN.md §4);
  arithmetic by `omega`.
-/
import Std.Tactic.BVDecide
import CppUtil.Proofs.WLockStep
import CppUtil.Gen.Pess
import CppUtil.Gen.Opt

namespace CppUtil.WLock
open CppUtil

/-- PessimisticLock: bit 63 = X, bit 62 = SIX, bits 61..0 = shared counter -/
def pessDecoder : Decoder where
  dec := fun w => ⟨w.getLsbD 63, w.getLsbD 62, (w.extractLsb' 0 62).toNat, 0⟩
  cap := 2 ^ 62
  verIn := fun _ => 0

/-- OptimisticLock: bit 63 = X, bit 62 = SIX, bits 61..32 = shared counter, bits 31..0 = version -/
def optDecoder : Decoder where
  dec := fun w => ⟨w.getLsbD 63, w.getLsbD 62, (w.extractLsb' 32 30).toNat, w.extractLsb' 0 32⟩
  cap := 2 ^ 30
  verIn := fun v => v

theorem fields_ext {a b : Fields} (h1 : a.x = b.x) (h2 : a.six = b.six) (h3 : a.s = b.s)
    (h4 : a.ver = b.ver) : a = b := by
  cases a; cases b; simp_all

theorem toNat_succ_of_lt {n : Nat} (a : BitVec n) (h : a.toNat + 1 < 2 ^ n) : (a + 1).toNat = a.toNat + 1 := by
  by_cases hn : n = 0
  · subst hn; simp at h
  · have h2 : 1 < 2 ^ n := Nat.one_lt_two_pow hn
    have h1' : (1 : BitVec n).toNat = 1 := by
      simp [Nat.mod_eq_of_lt h2]
    rw [BitVec.toNat_add, h1']; exact Nat.mod_eq_of_lt h

theorem toNat_pred_of_pos {n : Nat} (a : BitVec n) (h : 0 < a.toNat) : (a - 1).toNat = a.toNat - 1 := by
  have hlt := a.isLt
  by_cases hn : n = 0
  · subst hn; simp at hlt; omega
  · have h2 : 1 < 2 ^ n := Nat.one_lt_two_pow hn
    have h1' : (1 : BitVec n).toNat = 1 := by
      simp [Nat.mod_eq_of_lt h2]
    rw [BitVec.toNat_sub, h1']
    have : 2 ^ n - 1 + a.toNat = (a.toNat - 1) + 2 ^ n := by omega
    rw [this, Nat.add_mod_right]; apply Nat.mod_eq_of_lt; omega

theorem ne_allOnes_of_lt {n : Nat} (a : BitVec n) (h : a.toNat + 1 < 2 ^ n) : a ≠ BitVec.allOnes n := by
  intro hc; rw [hc] at h; simp at h
  have := Nat.two_pow_pos n; omega

theorem ne_zero_of_pos {n : Nat} (a : BitVec n) (h : 0 < a.toNat) : a ≠ 0 := by
  intro hc; rw [hc] at h; simp at h

theorem toNat_eq_zero {n : Nat} (a : BitVec n) (h : a = 0) : a.toNat = 0 := by rw [h]; simp

/-- unfold the generated constants to literals, then decide the bit-vector goal -/
macro "bits" : tactic =>
  `(tactic| ((try simp only [Gen.pessConsts, Gen.optConsts, zext, trunc] at *); (try unfold Word at *); bv_decide))

-- ---------------------------------------------------------------- PessimisticLock

namespace PessBits
abbrev C := Gen.pessConsts

theorem gS (w : Word) (h : ((w &&& C.kXLock) == C.kNoLocks) = true) : w.getLsbD 63 = false := by bits
theorem gSIX (w : Word) (h : ((w &&& C.kXMask) == C.kNoLocks) = true) :
    w.getLsbD 63 = false ∧ w.getLsbD 62 = false := by bits
theorem gX (w : Word) (h : (w == C.kNoLocks) = true) :
    w.getLsbD 63 = false ∧ w.getLsbD 62 = false ∧ w.extractLsb' 0 62 = 0 := by bits
theorem add_s (w : Word) (h : w.extractLsb' 0 62 ≠ BitVec.allOnes 62) :
    (w + C.kSLock).getLsbD 63 = w.getLsbD 63 ∧ (w + C.kSLock).getLsbD 62 = w.getLsbD 62 ∧
    (w + C.kSLock).extractLsb' 0 62 = w.extractLsb' 0 62 + 1 := by bits
theorem sub_s (w : Word) (h : w.extractLsb' 0 62 ≠ 0) :
    (w - C.kSLock).getLsbD 63 = w.getLsbD 63 ∧ (w - C.kSLock).getLsbD 62 = w.getLsbD 62 ∧
    (w - C.kSLock).extractLsb' 0 62 = w.extractLsb' 0 62 - 1 := by bits
theorem or_six (w : Word) :
    (w ||| C.kSIXLock).getLsbD 63 = w.getLsbD 63 ∧ (w ||| C.kSIXLock).getLsbD 62 = true ∧
    (w ||| C.kSIXLock).extractLsb' 0 62 = w.extractLsb' 0 62 := by bits
theorem or_x (w : Word) :
    (w ||| C.kXLock).getLsbD 63 = true ∧ (w ||| C.kXLock).getLsbD 62 = w.getLsbD 62 ∧
    (w ||| C.kXLock).extractLsb' 0 62 = w.extractLsb' 0 62 := by bits
theorem xor_six (w : Word) (h : w.getLsbD 62 = true) :
    (w ^^^ C.kSIXLock).getLsbD 63 = w.getLsbD 63 ∧ (w ^^^ C.kSIXLock).getLsbD 62 = false ∧
    (w ^^^ C.kSIXLock).extractLsb' 0 62 = w.extractLsb' 0 62 := by bits
theorem k_none : C.kNoLocks.getLsbD 63 = false ∧ C.kNoLocks.getLsbD 62 = false ∧
    C.kNoLocks.extractLsb' 0 62 = 0 := by bits
theorem k_six : C.kSIXLock.getLsbD 63 = false ∧ C.kSIXLock.getLsbD 62 = true ∧
    C.kSIXLock.extractLsb' 0 62 = 0 := by bits
theorem k_x : C.kXLock.getLsbD 63 = true ∧ C.kXLock.getLsbD 62 = false ∧
    C.kXLock.extractLsb' 0 62 = 0 := by bits
theorem upg (w : Word) (h : (w == C.kSIXLock) = true) : w.extractLsb' 0 62 = 0 := by bits
theorem prep (w : Word) (h1 : ((w &&& C.kXLock) == C.kNoLocks) = true) (h2 : (w != 0) = false) :
    w.getLsbD 63 = false ∧ w.getLsbD 62 = false ∧ w.extractLsb' 0 62 = 0 := by bits
theorem gS_c (w : Word) (h : w.getLsbD 63 = false) : ((w &&& C.kXLock) == C.kNoLocks) = true := by bits
theorem gSIX_c (w : Word) (h : w.getLsbD 63 = false) (h2 : w.getLsbD 62 = false) :
    ((w &&& C.kXMask) == C.kNoLocks) = true := by bits
theorem gX_c (w : Word) (h : w.getLsbD 63 = false) (h2 : w.getLsbD 62 = false) (h3 : w.extractLsb' 0 62 = 0) :
    (w == C.kNoLocks) = true := by bits
theorem upgG_c (w : Word) (h : w.getLsbD 63 = false) (h2 : w.getLsbD 62 = true) (h3 : w.extractLsb' 0 62 = 0) :
    (w == C.kSIXLock) = true := by bits
theorem any_iff (w : Word) (h : w.getLsbD 63 = false) :
    ((w != 0) = false) ↔ (w.getLsbD 62 = false ∧ w.extractLsb' 0 62 = 0) := by bits
end PessBits

/-- **Tie G, PessimisticLock**: the model's expressions at the regenerated constants meet the
    field-level specification the protocol proofs rely on. -/
theorem pess_specs (r : Nat) : Specs (Gen.pess r) pessDecoder where
  dec_zero := by simp [pessDecoder]
  gS := fun w h => by
    simp only [pessDecoder, Gen.pess, pessParams] at *; exact PessBits.gS w h
  gSIX := fun w h => by
    simp only [pessDecoder, Gen.pess, pessParams] at *; exact PessBits.gSIX w h
  gX := fun w h => by
    simp only [pessDecoder, Gen.pess, pessParams] at *
    have := PessBits.gX w h
    exact ⟨this.1, this.2.1, toNat_eq_zero _ this.2.2⟩
  uS := fun w h => by
    simp only [pessDecoder, Gen.pess, pessParams] at *
    have hb := PessBits.add_s w (ne_allOnes_of_lt _ h)
    apply fields_ext
    · exact hb.1
    · exact hb.2.1
    · show (BitVec.extractLsb' _ _ _).toNat = _
      rw [hb.2.2]; exact toNat_succ_of_lt _ h
    · rfl
  uSIX := fun w _ => by
    simp only [pessDecoder, Gen.pess, pessParams] at *
    have hb := PessBits.or_six w
    apply fields_ext
    · exact hb.1
    · exact hb.2.1
    · show (BitVec.extractLsb' _ _ _).toNat = _
      exact (by rw [hb.2.2])
    · rfl
  uX := fun w _ => by
    simp only [pessDecoder, Gen.pess, pessParams] at *
    have hb := PessBits.or_x w
    apply fields_ext
    · exact hb.1
    · exact hb.2.1
    · show (BitVec.extractLsb' _ _ _).toNat = _
      exact (by rw [hb.2.2])
    · rfl
  tgS := fun w h => by simp [Gen.pess, pessParams] at h
  tgSIX := fun w h => by simp [Gen.pess, pessParams] at h
  tgX := fun w h => by simp [Gen.pess, pessParams] at h
  tuS := fun w h => by
    simp only [pessDecoder, Gen.pess, pessParams] at *
    have hb := PessBits.add_s w (ne_allOnes_of_lt _ h)
    apply fields_ext
    · exact hb.1
    · exact hb.2.1
    · show (BitVec.extractLsb' _ _ _).toNat = _
      rw [hb.2.2]; exact toNat_succ_of_lt _ h
    · rfl
  tuSIX := fun w _ => by
    simp only [pessDecoder, Gen.pess, pessParams] at *
    have hb := PessBits.or_six w
    apply fields_ext
    · exact hb.1
    · exact hb.2.1
    · show (BitVec.extractLsb' _ _ _).toNat = _
      exact (by rw [hb.2.2])
    · rfl
  tuX := fun w _ => by
    simp only [pessDecoder, Gen.pess, pessParams] at *
    have hb := PessBits.or_x w
    apply fields_ext
    · exact hb.1
    · exact hb.2.1
    · show (BitVec.extractLsb' _ _ _).toNat = _
      exact (by rw [hb.2.2])
    · rfl
  rS := fun w h _ => by
    simp only [pessDecoder, Gen.pess, pessParams] at *
    have hb := PessBits.sub_s w (ne_zero_of_pos _ h)
    apply fields_ext
    · exact hb.1
    · exact hb.2.1
    · show (BitVec.extractLsb' _ _ _).toNat = _
      rw [hb.2.2]; exact toNat_pred_of_pos _ h
    · rfl
  rSIX := fun w h => by
    simp only [pessDecoder, Gen.pess, pessParams] at *
    have hb := PessBits.xor_six w h
    apply fields_ext
    · exact hb.1
    · exact hb.2.1
    · show (BitVec.extractLsb' _ _ _).toNat = _
      exact (by rw [hb.2.2])
    · rfl
  rX := fun _ => by
    simp only [pessDecoder, Gen.pess, pessParams] at *
    have hb := PessBits.k_none
    apply fields_ext
    · exact hb.1
    · exact hb.2.1
    · show (BitVec.extractLsb' _ _ _).toNat = _
      exact (toNat_eq_zero _ hb.2.2)
    · rfl
  upgG := fun w h => by
    simp only [pessDecoder, Gen.pess, pessParams] at *
    exact toNat_eq_zero _ (PessBits.upg w h)
  upgU := fun w h hx hsix => by
    simp only [pessDecoder, Gen.pess, pessParams] at *
    have hb := PessBits.k_x
    have h0 := PessBits.upg w h
    apply fields_ext
    · exact hb.1
    · exact hb.2.1
    · show (BitVec.extractLsb' _ _ _).toNat = _
      exact (by rw [hb.2.2, h0])
    · rfl
  dng := fun _ => by
    simp only [pessDecoder, Gen.pess, pessParams] at *
    have hb := PessBits.k_six
    apply fields_ext
    · exact hb.1
    · exact hb.2.1
    · show (BitVec.extractLsb' _ _ _).toNat = _
      exact (toNat_eq_zero _ hb.2.2)
    · rfl
  pG := fun w h1 h2 => by
    simp only [pessDecoder, Gen.pess, pessParams] at *
    have := PessBits.prep w h1 h2
    exact ⟨this.1, this.2.1, toNat_eq_zero _ this.2.2⟩
  pU := fun w h => by
    simp only [pessDecoder, Gen.pess, pessParams] at *
    have hb := PessBits.add_s w (ne_allOnes_of_lt _ h)
    apply fields_ext
    · exact hb.1
    · exact hb.2.1
    · show (BitVec.extractLsb' _ _ _).toNat = _
      rw [hb.2.2]; exact toNat_succ_of_lt _ h
    · rfl
  gS_c := fun w h => by
    simp only [pessDecoder, Gen.pess, pessParams] at *; exact PessBits.gS_c w h
  gSIX_c := fun w h h2 => by
    simp only [pessDecoder, Gen.pess, pessParams] at *; exact PessBits.gSIX_c w h h2
  gX_c := fun w h h2 h3 => by
    simp only [pessDecoder, Gen.pess, pessParams] at *
    exact PessBits.gX_c w h h2 (BitVec.eq_of_toNat_eq (by simpa using h3))
  upgG_c := fun w h h2 h3 => by
    simp only [pessDecoder, Gen.pess, pessParams] at *
    exact PessBits.upgG_c w h h2 (BitVec.eq_of_toNat_eq (by simpa using h3))
  noX_iff := fun w => by
    simp only [pessDecoder, Gen.pess, pessParams]
    exact ⟨PessBits.gS w, PessBits.gS_c w⟩
  verOf_eq := fun _ => rfl
  castVer_eq := fun _ => rfl
  tryNe := fun m w v h => by simp [Gen.pess, pessParams] at h
  anyLock_iff := fun w h => by
    simp only [pessDecoder, Gen.pess, pessParams] at *
    rw [PessBits.any_iff w h]
    constructor
    · intro ⟨a, b⟩; exact ⟨a, toNat_eq_zero _ b⟩
    · intro ⟨a, b⟩; exact ⟨a, BitVec.eq_of_toNat_eq (by simpa using b)⟩
  verIn_idem := fun _ => rfl
  tgS_c := fun _ _ => Or.inr (fun _ => rfl)
  tgSIX_c := fun _ _ _ => Or.inr (fun _ => rfl)
  tgX_c := fun _ _ _ _ => Or.inr (fun _ => rfl)

-- ---------------------------------------------------------------- OptimisticLock

namespace OptBits
abbrev C := Gen.optConsts

theorem gS (w : Word) (h : ((w &&& C.kXLock) == C.kNoLocks) = true) : w.getLsbD 63 = false := by bits
theorem gSIX (w : Word) (h : ((w &&& C.kXMask) == C.kNoLocks) = true) :
    w.getLsbD 63 = false ∧ w.getLsbD 62 = false := by bits
theorem gX (w : Word) (h : ((w &&& C.kAllLockMask) == C.kNoLocks) = true) :
    w.getLsbD 63 = false ∧ w.getLsbD 62 = false ∧ w.extractLsb' 32 30 = 0 := by bits
theorem add_s (w : Word) (h : w.extractLsb' 32 30 ≠ BitVec.allOnes 30) :
    (w + C.kSLock).getLsbD 63 = w.getLsbD 63 ∧ (w + C.kSLock).getLsbD 62 = w.getLsbD 62 ∧
    (w + C.kSLock).extractLsb' 32 30 = w.extractLsb' 32 30 + 1 ∧
    (w + C.kSLock).extractLsb' 0 32 = w.extractLsb' 0 32 := by bits
theorem sub_s (w : Word) (h : w.extractLsb' 32 30 ≠ 0) :
    (w - C.kSLock).getLsbD 63 = w.getLsbD 63 ∧ (w - C.kSLock).getLsbD 62 = w.getLsbD 62 ∧
    (w - C.kSLock).extractLsb' 32 30 = w.extractLsb' 32 30 - 1 ∧
    (w - C.kSLock).extractLsb' 0 32 = w.extractLsb' 0 32 := by bits
theorem or_six (w : Word) :
    (w ||| C.kSIXLock).getLsbD 63 = w.getLsbD 63 ∧ (w ||| C.kSIXLock).getLsbD 62 = true ∧
    (w ||| C.kSIXLock).extractLsb' 32 30 = w.extractLsb' 32 30 ∧
    (w ||| C.kSIXLock).extractLsb' 0 32 = w.extractLsb' 0 32 := by bits
theorem or_x (w : Word) :
    (w ||| C.kXLock).getLsbD 63 = true ∧ (w ||| C.kXLock).getLsbD 62 = w.getLsbD 62 ∧
    (w ||| C.kXLock).extractLsb' 32 30 = w.extractLsb' 32 30 ∧
    (w ||| C.kXLock).extractLsb' 0 32 = w.extractLsb' 0 32 := by bits
theorem xor_six (w : Word) (h : w.getLsbD 62 = true) :
    (w ^^^ C.kSIXLock).getLsbD 63 = w.getLsbD 63 ∧ (w ^^^ C.kSIXLock).getLsbD 62 = false ∧
    (w ^^^ C.kSIXLock).extractLsb' 32 30 = w.extractLsb' 32 30 ∧
    (w ^^^ C.kSIXLock).extractLsb' 0 32 = w.extractLsb' 0 32 := by bits
/-- the released word is the zero-extended version: no version value disturbs the mode bits -/
theorem rel_x (nv : BitVec 32) :
    (zext nv).getLsbD 63 = false ∧ (zext nv).getLsbD 62 = false ∧
    (zext nv).extractLsb' 32 30 = 0 ∧ (zext nv).extractLsb' 0 32 = nv := by bits
theorem dng (nv : BitVec 32) :
    (zext nv ||| C.kSIXLock).getLsbD 63 = false ∧ (zext nv ||| C.kSIXLock).getLsbD 62 = true ∧
    (zext nv ||| C.kSIXLock).extractLsb' 32 30 = 0 ∧ (zext nv ||| C.kSIXLock).extractLsb' 0 32 = nv := by bits
theorem upg_g (w : Word) (h : ((w &&& C.kSMask) == C.kNoLocks) = true) : w.extractLsb' 32 30 = 0 := by bits
theorem upg_u (w : Word) (hx : w.getLsbD 63 = false) (hsix : w.getLsbD 62 = true) :
    (w ^^^ C.kXMask).getLsbD 63 = true ∧ (w ^^^ C.kXMask).getLsbD 62 = false ∧
    (w ^^^ C.kXMask).extractLsb' 32 30 = w.extractLsb' 32 30 ∧
    (w ^^^ C.kXMask).extractLsb' 0 32 = w.extractLsb' 0 32 := by bits
theorem prep (w : Word) (h1 : ((w &&& C.kXLock) == C.kNoLocks) = true)
    (h2 : ((w &&& C.kAllLockMask) != 0) = false) :
    w.getLsbD 63 = false ∧ w.getLsbD 62 = false ∧ w.extractLsb' 32 30 = 0 := by bits
theorem gS_c (w : Word) (h : w.getLsbD 63 = false) : ((w &&& C.kXLock) == C.kNoLocks) = true := by bits
theorem gSIX_c (w : Word) (h : w.getLsbD 63 = false) (h2 : w.getLsbD 62 = false) :
    ((w &&& C.kXMask) == C.kNoLocks) = true := by bits
theorem gX_c (w : Word) (h : w.getLsbD 63 = false) (h2 : w.getLsbD 62 = false) (h3 : w.extractLsb' 32 30 = 0) :
    ((w &&& C.kAllLockMask) == C.kNoLocks) = true := by bits
theorem upgG_c (w : Word) (h3 : w.extractLsb' 32 30 = 0) : ((w &&& C.kSMask) == C.kNoLocks) = true := by bits
theorem any_iff (w : Word) (h : w.getLsbD 63 = false) :
    (((w &&& C.kAllLockMask) != 0) = false) ↔ (w.getLsbD 62 = false ∧ w.extractLsb' 32 30 = 0) := by bits
theorem ver_of (w : Word) : trunc (w &&& C.kVersionMask) = w.extractLsb' 0 32 := by bits
theorem cast_ver (w : Word) : trunc w = w.extractLsb' 0 32 := by bits
theorem try_ne (w : Word) (v : BitVec 32) :
    (((w &&& C.kVersionMask) != zext v) = true) ↔ w.extractLsb' 0 32 ≠ v := by bits
theorem try_ne_x (w : Word) (v : BitVec 32) (h : w.getLsbD 63 = false) :
    (((w &&& C.kXAndVersionMask) != zext v) = true) ↔ w.extractLsb' 0 32 ≠ v := by bits
end OptBits

/-- **Tie G, OptimisticLock**. -/
theorem opt_specs (r : Nat) : Specs (Gen.opt r) optDecoder where
  dec_zero := by simp [optDecoder]
  gS := fun w h => by
    simp only [optDecoder, Gen.opt, optParams] at *; exact OptBits.gS w h
  gSIX := fun w h => by
    simp only [optDecoder, Gen.opt, optParams] at *; exact OptBits.gSIX w h
  gX := fun w h => by
    simp only [optDecoder, Gen.opt, optParams] at *
    have := OptBits.gX w h
    exact ⟨this.1, this.2.1, toNat_eq_zero _ this.2.2⟩
  uS := fun w h => by
    simp only [optDecoder, Gen.opt, optParams] at *
    have hb := OptBits.add_s w (ne_allOnes_of_lt _ h)
    apply fields_ext
    · exact hb.1
    · exact hb.2.1
    · show (BitVec.extractLsb' _ _ _).toNat = _
      rw [hb.2.2.1]; exact toNat_succ_of_lt _ h
    · exact hb.2.2.2
  uSIX := fun w _ => by
    simp only [optDecoder, Gen.opt, optParams] at *
    have hb := OptBits.or_six w
    apply fields_ext
    · exact hb.1
    · exact hb.2.1
    · show (BitVec.extractLsb' _ _ _).toNat = _
      rw [hb.2.2.1]
    · exact hb.2.2.2
  uX := fun w _ => by
    simp only [optDecoder, Gen.opt, optParams] at *
    have hb := OptBits.or_x w
    apply fields_ext
    · exact hb.1
    · exact hb.2.1
    · show (BitVec.extractLsb' _ _ _).toNat = _
      rw [hb.2.2.1]
    · exact hb.2.2.2
  tgS := fun w h => by
    simp only [optDecoder, Gen.opt, optParams] at *; exact OptBits.gS w h
  tgSIX := fun w h => by
    simp only [optDecoder, Gen.opt, optParams] at *; exact OptBits.gSIX w h
  tgX := fun w h => by
    simp only [optDecoder, Gen.opt, optParams] at *
    have := OptBits.gX w h
    exact ⟨this.1, this.2.1, toNat_eq_zero _ this.2.2⟩
  tuS := fun w h => by
    simp only [optDecoder, Gen.opt, optParams] at *
    have hb := OptBits.add_s w (ne_allOnes_of_lt _ h)
    apply fields_ext
    · exact hb.1
    · exact hb.2.1
    · show (BitVec.extractLsb' _ _ _).toNat = _
      rw [hb.2.2.1]; exact toNat_succ_of_lt _ h
    · exact hb.2.2.2
  tuSIX := fun w _ => by
    simp only [optDecoder, Gen.opt, optParams] at *
    have hb := OptBits.or_six w
    apply fields_ext
    · exact hb.1
    · exact hb.2.1
    · show (BitVec.extractLsb' _ _ _).toNat = _
      rw [hb.2.2.1]
    · exact hb.2.2.2
  tuX := fun w _ => by
    simp only [optDecoder, Gen.opt, optParams] at *
    have hb := OptBits.or_x w
    apply fields_ext
    · exact hb.1
    · exact hb.2.1
    · show (BitVec.extractLsb' _ _ _).toNat = _
      rw [hb.2.2.1]
    · exact hb.2.2.2
  rS := fun w h _ => by
    simp only [optDecoder, Gen.opt, optParams] at *
    have hb := OptBits.sub_s w (ne_zero_of_pos _ h)
    apply fields_ext
    · exact hb.1
    · exact hb.2.1
    · show (BitVec.extractLsb' _ _ _).toNat = _
      rw [hb.2.2.1]; exact toNat_pred_of_pos _ h
    · exact hb.2.2.2
  rSIX := fun w h => by
    simp only [optDecoder, Gen.opt, optParams] at *
    have hb := OptBits.xor_six w h
    apply fields_ext
    · exact hb.1
    · exact hb.2.1
    · show (BitVec.extractLsb' _ _ _).toNat = _
      rw [hb.2.2.1]
    · exact hb.2.2.2
  rX := fun nv => by
    simp only [optDecoder, Gen.opt, optParams] at *
    have hb := OptBits.rel_x nv
    apply fields_ext
    · exact hb.1
    · exact hb.2.1
    · exact toNat_eq_zero _ hb.2.2.1
    · exact hb.2.2.2
  upgG := fun w h => by
    simp only [optDecoder, Gen.opt, optParams] at *
    exact toNat_eq_zero _ (OptBits.upg_g w h)
  upgU := fun w h hx hsix => by
    simp only [optDecoder, Gen.opt, optParams] at *
    have hb := OptBits.upg_u w hx hsix
    apply fields_ext
    · exact hb.1
    · exact hb.2.1
    · show (BitVec.extractLsb' _ _ _).toNat = _
      rw [hb.2.2.1]
    · exact hb.2.2.2
  dng := fun nv => by
    simp only [optDecoder, Gen.opt, optParams] at *
    have hb := OptBits.dng nv
    apply fields_ext
    · exact hb.1
    · exact hb.2.1
    · exact toNat_eq_zero _ hb.2.2.1
    · exact hb.2.2.2
  pG := fun w h1 h2 => by
    simp only [optDecoder, Gen.opt, optParams] at *
    have := OptBits.prep w h1 h2
    exact ⟨this.1, this.2.1, toNat_eq_zero _ this.2.2⟩
  pU := fun w h => by
    simp only [optDecoder, Gen.opt, optParams] at *
    have hb := OptBits.add_s w (ne_allOnes_of_lt _ h)
    apply fields_ext
    · exact hb.1
    · exact hb.2.1
    · show (BitVec.extractLsb' _ _ _).toNat = _
      rw [hb.2.2.1]; exact toNat_succ_of_lt _ h
    · exact hb.2.2.2
  gS_c := fun w h => by
    simp only [optDecoder, Gen.opt, optParams] at *; exact OptBits.gS_c w h
  gSIX_c := fun w h h2 => by
    simp only [optDecoder, Gen.opt, optParams] at *; exact OptBits.gSIX_c w h h2
  gX_c := fun w h h2 h3 => by
    simp only [optDecoder, Gen.opt, optParams] at *
    exact OptBits.gX_c w h h2 (BitVec.eq_of_toNat_eq (by simpa using h3))
  upgG_c := fun w _ _ h3 => by
    simp only [optDecoder, Gen.opt, optParams] at *
    exact OptBits.upgG_c w (BitVec.eq_of_toNat_eq (by simpa using h3))
  noX_iff := fun w => by
    simp only [optDecoder, Gen.opt, optParams]
    exact ⟨OptBits.gS w, OptBits.gS_c w⟩
  verOf_eq := fun w => by
    simp only [optDecoder, Gen.opt, optParams]; exact OptBits.ver_of w
  castVer_eq := fun w => by
    simp only [optDecoder, Gen.opt, optParams]; exact OptBits.cast_ver w
  tryNe := fun m w v h => by
    cases m <;> simp only [optDecoder, Gen.opt, optParams] at *
    · exact OptBits.try_ne w v
    · exact OptBits.try_ne w v
    · exact OptBits.try_ne_x w v (OptBits.gX w h).1
  anyLock_iff := fun w h => by
    simp only [optDecoder, Gen.opt, optParams] at *
    rw [OptBits.any_iff w h]
    constructor
    · intro ⟨a, b⟩; exact ⟨a, toNat_eq_zero _ b⟩
    · intro ⟨a, b⟩; exact ⟨a, BitVec.eq_of_toNat_eq (by simpa using b)⟩
  verIn_idem := fun _ => rfl
  tgS_c := fun w h => Or.inl (by
    simp only [optDecoder, Gen.opt, optParams] at *; exact OptBits.gS_c w h)
  tgSIX_c := fun w h h2 => Or.inl (by
    simp only [optDecoder, Gen.opt, optParams] at *; exact OptBits.gSIX_c w h h2)
  tgX_c := fun w h h2 h3 => Or.inl (by
    simp only [optDecoder, Gen.opt, optParams] at *
    exact OptBits.gX_c w h h2 (BitVec.eq_of_toNat_eq (by simpa using h3)))

end CppUtil.WLock
