/-
  C17 — the protected-epoch list handed to a guard holder is its own and stable.
  Proved: the vector published for an epoch `e` (by the forward that made `e` current) is strictly
  descending, starts with `e` and contains `e − 1`; the lookup of an epoch in the chain returns the
  vector written for it.  The unrestricted statement is false on the pinned tree (known finding F6,
  `findings/F6_enter_epoch_stall.scen`): `EnterEpoch` publishes the epoch it read in a second step.
-/
import CppUtil.Proofs.EpochSeq
import CppUtil.Gen.Thread

namespace CppUtil.Props
open CppUtil CppUtil.Epoch

/-- shape of the vector published for epoch `e = cur + 1` -/
theorem c17_list_shape (cur : Nat) (pins : List Nat) (hp : ∀ p ∈ pins, p ≤ cur) :
    let l := sortDescDedup ([cur + 1, cur] ++ pins)
    Desc l ∧ l.head? = some (cur + 1) ∧ cur ∈ l := by
  have hs := sortDescDedup_spec ([cur + 1, cur] ++ pins)
  refine ⟨hs.1, ?_, (hs.2 cur).mpr (by simp)⟩
  apply published_head
  · simp
  · intro y hy
    simp only [List.cons_append, List.nil_append, List.mem_cons] at hy
    rcases hy with rfl | rfl | hy
    · omega
    · omega
    · have := hp y hy; omega

/-- writing the vector of epoch `e` and reading it back through the same chain walk -/
theorem c17_read_back (C : Consts) (e : Nat) (v : List Nat) (nodes : List PNode)
    (hn : (findNode C e nodes).isSome = true) : getList C e (setList C e v nodes) = some v := by
  induction nodes with
  | nil => simp [findNode] at hn
  | cons n rest ih =>
    simp only [findNode] at hn
    by_cases h : n.upper > upperOf C e
    · simp only [h, ↓reduceIte] at hn
      simp only [setList, h, ↓reduceIte, getList, findNode]
      have := ih hn
      simpa [getList] using this
    · simp only [setList, h, ↓reduceIte, getList, findNode, Option.map_some, vecOf]
      have hnone : List.find? (fun x => x.1 == lowerOf C e) (List.filter (fun x => x.1 != lowerOf C e) n.lists) = none := by
        apply List.find?_eq_none.mpr
        intro x hx
        have := (List.mem_filter.mp hx).2
        simp at this ⊢
        exact this
      simp [List.find?_append, hnone]

end CppUtil.Props
