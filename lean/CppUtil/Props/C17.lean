/-
  C17 — the protected-epoch list handed to a guard holder is its own and stable.
  Proved: the vector published for an epoch `e` (by the forward that made `e` current) is strictly
  descending, starts with `e` and contains `e − 1`; the lookup of an epoch in the chain returns the
  vector written for it; for sequential histories (`Proofs/EpochHist.lean`) the vector of every live guard
  stays available and unchanged through any number of forwards, node creations and retirements.
  For **every interleaving** of workers (with ID reuse) and the coordinator (`Model/EpochLists.lean`,
  Props/EpochListsThm.lean): `c17_protocol` (every complete guard's lookup returns the vector published for
  its epoch, with the C17 shape), `c17_protocol_stable` (the very same vector for as long as the guard lives),
  `c17_protocol_forward_enabled` (the coordinator's list handling never blocks) — under the premise that no
  `EnterEpoch` store is stale.  The unrestricted statement is false on the pinned tree (known finding F6,
  `findings/F6_enter_epoch_stall.scen`): `EnterEpoch` publishes the epoch it read in a second step;
  `lists_stale_premise_needed` shows the same failure on the model.
-/
import CppUtil.Proofs.EpochHist
import CppUtil.Props.EpochListsThm
import CppUtil.Gen.Thread

namespace CppUtil.Props
open CppUtil CppUtil.Epoch

/-- shape of the vector published for epoch `e = cur + 1` -/
theorem c17_list_shape (cur : Nat) (pins : List Nat) (hp : ∀ p ∈ pins, p ≤ cur) :
    let l := sortDescDedup ([cur + 1, cur] ++ pins)
    Desc l ∧ l.head? = some (cur + 1) ∧ cur ∈ l := by
  have hs := sortDescDedup_spec ([cur + 1, cur] ++ pins)
  refine ⟨hs.1, ?_, (hs.2 cur).mpr (by simp)⟩
  apply published_head
  · simp
  · intro y hy
    simp only [List.cons_append, List.nil_append, List.mem_cons] at hy
    rcases hy with rfl | rfl | hy
    · omega
    · omega
    · have := hp y hy; omega

/-- writing the vector of epoch `e` and reading it back through the same chain walk -/
theorem c17_read_back (C : Consts) (e : Nat) (v : List Nat) (nodes : List PNode)
    (hn : (findNode C e nodes).isSome = true) : getList C e (setList C e v nodes) = some v := by
  induction nodes with
  | nil => simp [findNode] at hn
  | cons n rest ih =>
    simp only [findNode] at hn
    by_cases h : n.upper > upperOf C e
    · simp only [h, ↓reduceIte] at hn
      simp only [setList, h, ↓reduceIte, getList, findNode]
      have := ih hn
      simpa [getList] using this
    · simp only [setList, h, ↓reduceIte, getList, findNode, Option.map_some, vecOf]
      have hnone : List.find? (fun x => x.1 == lowerOf C e) (List.filter (fun x => x.1 != lowerOf C e) n.lists) = none := by
        apply List.find?_eq_none.mpr
        intro x hx
        have := (List.mem_filter.mp hx).2
        simp at this ⊢
        exact this
      simp [List.find?_append, hnone]

/-- **sequential histories** (no stall inside `CreateEpochGuard`, coordinator not concurrent): at every
    point of every history, for every live guard (pinned epoch `p`) and for the current epoch, the lookup
    finds the vector published when `p` became current; that vector has the required shape -/
theorem c17_sequential_available (ops : List SeqOp) (s : SeqSt)
    (h : seqRun Gen.epochConsts (seqInit Gen.epochConsts) ops = some s) (p : Nat) (hp : p = s.cur ∨ p ∈ s.pins) :
    getList Gen.epochConsts p s.nodes = some (s.pub p) ∧
    (s.pub p).head? = some p ∧ Desc (s.pub p) ∧ (Gen.epochConsts.kInitialEpoch < p → p - 1 ∈ s.pub p) := by
  have hG : GoodConsts Gen.epochConsts := ⟨by decide, by decide, by decide⟩
  have hI := sinv_reachable _ hG ops s h
  refine ⟨pinned_list_available _ s hI p hp, ?_⟩
  have hb : Gen.epochConsts.kInitialEpoch ≤ p ∧ p ≤ s.cur := by
    rcases hp with rfl | hp
    · exact ⟨hI.curge, Nat.le_refl _⟩
    · exact ⟨(hI.pins p hp).2, (hI.pins p hp).1⟩
  exact hI.shape p hb.1 hb.2

/-- … and no later operation (creation or destruction of other guards, any number of forwards with node
    creation and retirement) changes it: the vector of an epoch is written once -/
theorem c17_sequential_stable (ops : List SeqOp) (s : SeqSt)
    (h : seqRun Gen.epochConsts (seqInit Gen.epochConsts) ops = some s) (op : SeqOp) (s' : SeqSt)
    (hs : seqStep Gen.epochConsts s op = some s') : ∀ e, e ≤ s.cur → s'.pub e = s.pub e := by
  have hG : GoodConsts Gen.epochConsts := ⟨by decide, by decide, by decide⟩
  exact pub_stable _ hG s (sinv_reachable _ hG ops s h) op s' hs

end CppUtil.Props
