/-
  C15 — heartbeats track thread lifetime and expire before the ID is reused.
  `Gen.heartbeatExpiresFirst` is regenerated from the source of `~HeartBeater` (does the heartbeat
  pointer die before the reservation flag is cleared?); the run-time order of the two steps is also
  part of every compared trace.
-/
import CppUtil.Proofs.IdMgrInv
import CppUtil.Gen.Thread

namespace CppUtil.Props
open CppUtil CppUtil.IdMgr

/-- tie G: in the current source the heartbeat expires before the ID is released -/
theorem c15_exit_order : Gen.heartbeatExpiresFirst = true := by decide

/-- **lifetime**: a thread's heartbeat is unexpired exactly from its claiming exchange until the expiry
    step of its exit path; in particular it is unexpired while the thread runs user code (`owner`) and
    expired once the thread is `dead`. -/
theorem c15_lifetime (n : Nat) (hn : 0 < n) (ef : Bool) (nthreads : Nat) (acts : List Act) (s : St)
    (h : run n ef (mkSt n nthreads) acts = some s) (t : Nat) (l : TLoc) (ht : s.threads[t]? = some l) :
    s.alive.getD t false = holdsToken ef l ∧
    (∀ id, l = .owner id → s.alive.getD t false = true) ∧ (l = .dead → s.alive.getD t false = false) := by
  have hI := inv_run hn (inv_init n nthreads ef) h
  have := hI.tok t l ht
  refine ⟨this, ?_, ?_⟩
  · intro id hl; subst hl; rw [this]; rfl
  · intro hl; subst hl; rw [this]; rfl

/-- **expired before reuse**: with the exit order of the current source, whenever the reservation flag of
    ID `i` is clear, no unexpired heartbeat belongs to `i` — so at the exchange that hands `i` to a new
    thread every heartbeat given to earlier owners of `i` is already expired. -/
theorem c15_free_slot_all_expired (n : Nat) (hn : 0 < n) (nthreads : Nat) (acts : List Act) (s : St)
    (h : run n Gen.heartbeatExpiresFirst (mkSt n nthreads) acts = some s) (i : Nat) (hi : i < n)
    (hfree : s.slots.getD i false = false) (t : Nat) (l : TLoc) (ht : s.threads[t]? = some l)
    (hl : l.pos? = some i) : s.alive.getD t false = false := by
  rw [c15_exit_order] at h
  have hI := inv_run hn (inv_init n nthreads true) h
  rw [hI.tok t l ht]
  cases hb : holdsToken true l with
  | false => rfl
  | true =>
    exfalso
    have hr : reserves true l = some i := by
      cases l <;> simp [holdsToken] at hb <;> simp [TLoc.pos?] at hl <;> simp [reserves, hl]
    have := slot_of_reserver hI ht hr hi
    rw [hfree] at this; cases this

/-- **at most one unexpired heartbeat per ID** -/
theorem c15_unexpired_unique (n : Nat) (hn : 0 < n) (nthreads : Nat) (acts : List Act) (s : St)
    (h : run n Gen.heartbeatExpiresFirst (mkSt n nthreads) acts = some s) (t1 t2 i : Nat) (hne : t1 ≠ t2)
    (l1 l2 : TLoc) (h1 : s.threads[t1]? = some l1) (h2 : s.threads[t2]? = some l2)
    (p1 : l1.pos? = some i) (p2 : l2.pos? = some i)
    (a1 : s.alive.getD t1 false = true) (a2 : s.alive.getD t2 false = true) : False := by
  rw [c15_exit_order] at h
  have hI := inv_run hn (inv_init n nthreads true) h
  have hi : i < n := hI.pos _ (List.mem_of_getElem? h1) i p1
  rw [hI.tok t1 l1 h1] at a1
  rw [hI.tok t2 l2 h2] at a2
  have r1 : reserves true l1 = some i := by
    cases l1 <;> simp [holdsToken] at a1 <;> simp [TLoc.pos?] at p1 <;> simp [reserves, p1]
  have r2 : reserves true l2 = some i := by
    cases l2 <;> simp [holdsToken] at a2 <;> simp [TLoc.pos?] at p2 <;> simp [reserves, p2]
  have hc := resCount_set true s t1 l1 .dead i h1
  have h2' : (setT s t1 .dead).threads[t2]? = some l2 := by
    simp only [setT]; rw [List.getElem?_set_ne hne]; exact h2
  have hpos : 0 < resCount true (setT s t1 .dead) i := by
    unfold resCount
    apply List.countP_pos_iff.mpr
    exact ⟨_, List.mem_of_getElem? h2', by simp [r2]⟩
  have := hI.cnt i hi
  have e1 : (if reserves true l1 == some i then 1 else 0) = 1 := by simp [r1]
  have e2 : (if reserves true TLoc.dead == some i then 1 else 0) = 0 := by simp [reserves]
  rw [e1, e2] at hc
  split at this <;> omega

/-- **Why the order matters** (the defect repaired by the `fix:` commit, kept as a regression): with the
    original order — flag cleared first — capacity 1 and two threads reach a state in which the second
    thread owns ID 0 while the first thread's heartbeat for ID 0 is still unexpired. -/
theorem c15_counterexample_original_order : ∃ s, run 1 false (mkSt 1 2)
    [.begin 0 0, .atom 0, .atom 0, .beginExit 0, .atom 0, .begin 1 0, .atom 1, .atom 1] = some s ∧
    s.threads[1]? = some (.owner 0) ∧ s.alive.getD 0 false = true ∧ s.threads[0]? = some (.exit2 0) :=
  ⟨_, rfl, rfl, rfl, rfl⟩

end CppUtil.Props
