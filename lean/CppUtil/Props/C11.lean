/-
  C11 — MCSLock serves conflicting requests in arrival order.
  Status: the step-faithful model (`Model/Mcs.lean`) is compared quantum by quantum with the real
  code, and the arrival-order monitor (`Monitor.fifoEvent/fifoGrant`) runs on every implementation
  trace.  The queue invariant from which arrival order follows (DESIGN.md §5.3, clauses 1–3) is not
  mechanised yet; what is proved here are the bit-level obligations of the enqueue path.
-/
import CppUtil.Props.McsBits

namespace CppUtil.Props
open CppUtil CppUtil.Props.McsBits

/-- enqueue (`exchange` of `node | flag`): the new tail word carries exactly the requester's flag and node,
    for every 47-bit node address -/
theorem c11_tail_word (p : Word) (hp : p &&& C.kLockMask = 0) :
    xb (p ||| C.kXLock) = true ∧ sixb (p ||| C.kXLock) = false ∧ sfield (p ||| C.kXLock) = 0 ∧
    pfield (p ||| C.kXLock) = pfield p ∧
    xb (p ||| C.kSIXLock) = false ∧ sixb (p ||| C.kSIXLock) = true ∧ sfield (p ||| C.kSIXLock) = 0 ∧
    pfield (p ||| C.kSIXLock) = pfield p := by
  simp only [xb, sixb, sfield, pfield] at *; mbits

/-- a shared request that joins the tail group leaves the tail pointer and the head's flag untouched -/
theorem c11_join_keeps_tail (w : Word) (h : sfield w ≠ BitVec.allOnes 15) :
    pfield (w + C.kSLock) = pfield w ∧ xb (w + C.kSLock) = xb w ∧ sixb (w + C.kSLock) = sixb w :=
  let r := add_s w h; ⟨r.2.2.2, r.1, r.2.1⟩

end CppUtil.Props
