/-
  C11 — MCSLock serves conflicting requests in arrival order.
  `c11_no_overtake`: in every reachable state of the step-faithful model, no request holds a grant while a
  conflicting request that is ahead of it in the queue is still unfinished.  The queue is the arrival order
  by construction of the ghost update (`c11_queue_is_arrival_order`): a LockSIX / LockX request is appended
  at the end by its exchange of the lock word, a LockS request installs a group on a free lock or joins the
  *last* group by its CAS — each the request's first modification of the lock object — and groups leave only
  from the front.  Proved from the protocol invariant (`Proofs/Mcs*.lean`); the model is compared quantum by
  quantum with the real code and the arrival-order monitor runs on every implementation trace.
-/
import CppUtil.Props.McsBits
import CppUtil.Proofs.McsFifo
import CppUtil.Props.McsProto

namespace CppUtil.Props
open CppUtil CppUtil.Props.McsBits

/-- enqueue (`exchange` of `node | flag`): the new tail word carries exactly the requester's flag and node,
    for every 47-bit node address -/
theorem c11_tail_word (p : Word) (hp : p &&& C.kLockMask = 0) :
    xb (p ||| C.kXLock) = true ∧ sixb (p ||| C.kXLock) = false ∧ sfield (p ||| C.kXLock) = 0 ∧
    pfield (p ||| C.kXLock) = pfield p ∧
    xb (p ||| C.kSIXLock) = false ∧ sixb (p ||| C.kSIXLock) = true ∧ sfield (p ||| C.kSIXLock) = 0 ∧
    pfield (p ||| C.kSIXLock) = pfield p := by
  simp only [xb, sixb, sfield, pfield] at *; mbits

/-- a shared request that joins the tail group leaves the tail pointer and the head's flag untouched -/
theorem c11_join_keeps_tail (w : Word) (h : sfield w ≠ BitVec.allOnes 15) :
    pfield (w + C.kSLock) = pfield w ∧ xb (w + C.kSLock) = xb w ∧ sixb (w + C.kSLock) = sixb w :=
  let r := add_s w h; ⟨r.2.2.2, r.1, r.2.1⟩

/-- **C11**: no overtaking, every reachable state -/
theorem c11_no_overtake (nlocks nthreads : Nat) (acts : List Mcs.Act)
    (hr : Mcs.RunOK mcsPb mcsCb mcsParams (Mcs.mkSt nlocks nthreads) acts) (i j : Nat) (a b : Mcs.Agent)
    (hi : (Mcs.run mcsParams (Mcs.mkSt nlocks nthreads) acts).agents[i]? = some a)
    (hj : (Mcs.run mcsParams (Mcs.mkSt nlocks nthreads) acts).agents[j]? = some b) (hla : a.lk = b.lk)
    (hahead : Mcs.Ahead (Mcs.ghostRun mcsParams (Mcs.mkSt nlocks nthreads) (fun _ => []) acts) a.lk i a j b)
    (mb : Mode) (hgb : b.loc.grant? = some mb) (hc : conflict (Mcs.reqMode a) mb = true) : False :=
  Mcs.no_overtake (mcs_invariant nlocks nthreads acts hr).inv hi hj hla hahead hgb hc

/-- the ghost queue is the arrival order: how each kind of step changes it (any state, any queue) -/
theorem c11_queue_is_arrival_order (s : Mcs.St) (Q : Nat → List Mcs.Grp) (i : Nat) (a : Mcs.Agent)
    (hi : s.agents[i]? = some a) :
    (∀ m, a.loc = .xXchg m → Mcs.ghostAtom mcsParams s Q i a.lk = Q a.lk ++ [{ node := a.qnode, head := some i }]) ∧
    (a.loc = .sCas → Mcs.ghostAtom mcsParams s Q i a.lk = Q a.lk ∨
      Mcs.ghostAtom mcsParams s Q i a.lk = [{ node := a.qnode, head := none }]) ∧
    (∀ m ph, a.loc = .rel m ph → Mcs.ghostAtom mcsParams s Q i a.lk = Q a.lk ∨
      Mcs.ghostAtom mcsParams s Q i a.lk = (Q a.lk).tail ∨ Mcs.ghostAtom mcsParams s Q i a.lk = []) ∧
    (a.loc ≠ .sCas → (∀ m, a.loc ≠ .xXchg m) → (∀ m ph, a.loc ≠ .rel m ph) → Mcs.ghostAtom mcsParams s Q i = Q) :=
  ⟨fun m h => Mcs.ghost_arrive_head i a m hi h, fun h => Mcs.ghost_arrive_shared i a hi h,
   fun m ph h => Mcs.ghost_release i a m ph hi h, fun h1 h2 h3 => Mcs.ghost_other i a hi h1 h2 h3⟩

end CppUtil.Props
