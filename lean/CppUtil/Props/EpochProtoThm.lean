/-
  Theorems about the epoch protocol model for every interleaving (C04, C16), stated over runs of
  `EpochProto.step` from the initial state with the exit order read from the source
  (`Gen.heartbeatExpiresFirst`).
-/
import CppUtil.Proofs.EpochProtoInv
import CppUtil.Proofs.EpochForward
import CppUtil.Gen.Thread

namespace CppUtil.Props
open CppUtil CppUtil.Epoch CppUtil.EpochProto

theorem proto_inv (n : Nat) (hn : 0 < n) (nthreads : Nat) (acts : List Act) (s : St)
    (h : run n Gen.heartbeatExpiresFirst (mkSt Gen.epochConsts.kInitialEpoch n nthreads) acts = some s) :
    Inv Gen.epochConsts.kInitialEpoch n s := by
  have hef : Gen.heartbeatExpiresFirst = true := by decide
  rw [hef] at h
  exact inv_run hn acts _ s (inv_init _ n nthreads) h

/-- **C04, all interleavings.**  `s.must` holds the guards that were complete when the running
    ForwardGlobalEpoch started and have not been destroyed since (`proto_must_start`, `proto_must_kept`).
    When the forward has stored the new global epoch and is about to return (`storeM`: only the store of the
    minimum is left), every such guard is still alive, reports the epoch `e` it entered, `e` is in the vector
    published for the new global epoch, and the minimum that is about to be stored does not exceed it.
    Any capacity, any number of threads (ID reuse included), any schedule; global epoch below `SIZE_MAX`. -/
theorem c04_protocol (n : Nat) (hn : 0 < n) (nthreads : Nat) (acts : List Act) (s : St)
    (h : run n Gen.heartbeatExpiresFirst (mkSt Gen.epochConsts.kInitialEpoch n nthreads) acts = some s)
    (cur : Nat) (list : List Nat) (hc : s.c = .storeM cur list) (hG : s.G < sizeMax)
    (t id e : Nat) (hm : (t, id, e) ∈ s.must) :
    wpc s t = .guarded e ∧ ownId s t = some id ∧ s.E.getD id sizeMax = e ∧
    s.G = cur + 1 ∧ e ∈ list ∧ list.getLast?.getD 0 ≤ e := by
  have hI := proto_inv n hn nthreads acts s h
  obtain ⟨h1, h2, h3⟩ := hI.must t id e hm
  have hp := hI.pin t id e h1 h2
  have hco := hI.coord
  unfold CoordOK at hco
  rw [hc] at hco h3
  have hel : e ∈ list := h3 (by omega)
  refine ⟨h2, by unfold ownId; rw [h1], hp.1, hco.1.symm, hel, ?_⟩
  cases hl : list.getLast? with
  | none => simp
  | some m => exact desc_last_le list hco.2.1 m hl e hel

/-- … and after the last step of the forward `GetMinEpoch() ≤ e` -/
theorem c04_protocol_min (n : Nat) (hn : 0 < n) (nthreads : Nat) (acts : List Act) (s s' : St)
    (h : run n Gen.heartbeatExpiresFirst (mkSt Gen.epochConsts.kInitialEpoch n nthreads) acts = some s)
    (cur : Nat) (list : List Nat) (hc : s.c = .storeM cur list) (hG : s.G < sizeMax)
    (hs : step n Gen.heartbeatExpiresFirst s .fwd = some s')
    (t id e : Nat) (hm : (t, id, e) ∈ s.must) : s'.c = .idle ∧ s'.M ≤ e := by
  have := c04_protocol n hn nthreads acts s h cur list hc hG t id e hm
  simp only [step, hc] at hs
  cases hs
  exact ⟨rfl, this.2.2.2.2.2⟩

/-- what `must` is at the first step of a forward: exactly the complete guards -/
theorem proto_must_start (n : Nat) (ef : Bool) (s s' : St) (hc : s.c = .idle) (hs : step n ef s .fwd = some s')
    (t id e : Nat) : (t, id, e) ∈ s'.must ↔ (t < s.w.length ∧ ownId s t = some id ∧ wpc s t = .guarded e) := by
  simp only [step, hc] at hs
  cases hs
  exact mem_guardsNow

/-- … and afterwards an entry leaves `must` only in a step of its own thread (the destruction of the guard) -/
theorem proto_must_kept (n : Nat) (ef : Bool) (s s' : St) (a : Act) (hc : s.c ≠ .idle) (hs : step n ef s a = some s')
    (g : Nat × Nat × Nat) (hg : g ∈ s.must) : g ∈ s'.must ∨ a = .wstep g.1 := by
  cases a with
  | id a =>
    left
    cases a with
    | beginExit t =>
      simp only [step] at hs
      split at hs
      · rw [(idStep_G hs).2.2.1]; exact hg
      · cases hs
    | begin t st => simp only [step] at hs; rw [(idStep_G hs).2.2.1]; exact hg
    | atom t => simp only [step] at hs; rw [(idStep_G hs).2.2.1]; exact hg
  | create t =>
    left
    simp only [step] at hs
    split at hs
    · split at hs
      · cases hs; exact hg
      · cases hs
    · cases hs
  | wstep t =>
    by_cases htt : g.1 = t
    · right; rw [htt]
    · left
      simp only [step] at hs
      split at hs
      · cases hs
      · split at hs <;> cases hs
        · exact hg
        · exact hg
        · exact hg
        · exact hg
        · exact List.mem_filter.mpr ⟨hg, by simpa using htt⟩
  | fwd =>
    left
    simp only [step] at hs
    split at hs
    · rename_i h0; exact absurd h0 hc
    · cases hs; exact hg
    · cases hs; exact hg
    · cases hs; exact hg
    · cases hs; exact hg

/-! ### C16 on the protocol model -/

/-- the global epoch is the initial epoch plus the number of completed forwards (plus one between the two
    stores of a forward) -/
theorem c16_protocol_count (n : Nat) (hn : 0 < n) (nthreads : Nat) (acts : List Act) (s : St)
    (h : run n Gen.heartbeatExpiresFirst (mkSt Gen.epochConsts.kInitialEpoch n nthreads) acts = some s) :
    s.G = Gen.epochConsts.kInitialEpoch + s.fwds + pending s.c :=
  (proto_inv n hn nthreads acts s h).cnt

/-- every step leaves the global epoch alone or — only the coordinator's store — adds exactly one -/
theorem c16_protocol_step (n : Nat) (hn : 0 < n) (nthreads : Nat) (acts : List Act) (s s' : St) (a : Act)
    (h : run n Gen.heartbeatExpiresFirst (mkSt Gen.epochConsts.kInitialEpoch n nthreads) acts = some s)
    (hs : step n Gen.heartbeatExpiresFirst s a = some s') :
    s'.G = s.G ∨ (s'.G = s.G + 1 ∧ a = .fwd ∧ ∃ list, s.c = .storeG s.G list) := by
  have hI := proto_inv n hn nthreads acts s h
  have hef : Gen.heartbeatExpiresFirst = true := by decide
  rw [hef] at hs
  exact step_G hI hs

/-- a minimum read at any time never exceeds a current epoch read at the same or any later time -/
theorem c16_protocol_min_le_later_cur (n : Nat) (hn : 0 < n) (nthreads : Nat) (acts more : List Act) (s s2 : St)
    (h : run n Gen.heartbeatExpiresFirst (mkSt Gen.epochConsts.kInitialEpoch n nthreads) acts = some s)
    (h2 : run n Gen.heartbeatExpiresFirst s more = some s2) : s.M ≤ s2.G := by
  have hI := proto_inv n hn nthreads acts s h
  have hef : Gen.heartbeatExpiresFirst = true := by decide
  rw [hef] at h2
  exact Nat.le_trans hI.mg (run_G_mono hn more s s2 hI h2)

/-- a forward that started when no guard existed or was being created, and during which none was begun,
    publishes exactly `[current, current − 1]` and stores `current − 1` as the minimum -/
theorem c16_protocol_quiescent (n : Nat) (hn : 0 < n) (nthreads : Nat) (acts : List Act) (s : St)
    (h : run n Gen.heartbeatExpiresFirst (mkSt Gen.epochConsts.kInitialEpoch n nthreads) acts = some s)
    (cur : Nat) (list : List Nat) (hc : s.c = .storeM cur list) (hq : s.quiet = true) :
    s.G = cur + 1 ∧ list = [cur + 1, cur] ∧ list.getLast?.getD 0 = cur := by
  have hI := proto_inv n hn nthreads acts s h
  have hco := hI.coord
  unfold CoordOK at hco
  have h2 := (hI.quiet hq).2
  rw [hc] at hco h2
  have : list = [cur + 1, cur] := h2
  exact ⟨hco.1.symm, this, by rw [this]; rfl⟩

/-- what `quiet` is: set at the first step of a forward iff every worker is outside CreateEpochGuard and holds
    no guard; cleared by every `create` -/
theorem proto_quiet_start (n : Nat) (ef : Bool) (s s' : St) (hc : s.c = .idle) (hs : step n ef s .fwd = some s') :
    s'.quiet = s.w.all (· == .idle) := by
  simp only [step, hc] at hs
  cases hs; rfl

theorem proto_quiet_create (n : Nat) (ef : Bool) (s s' : St) (t : Nat) (hs : step n ef s (.create t) = some s') :
    s'.quiet = false := by
  simp only [step] at hs
  split at hs
  · split at hs
    · cases hs; rfl
    · cases hs
  · cases hs

/-- **every ForwardGlobalEpoch call returns** (C04 / C16: the coordinator never waits): from any state in which no forward
    is running, any continuation that contains `2n + 3` coordinator steps — however many steps of workers, claimers and
    exiting threads are interleaved — completes at least one forward -/
theorem c16_protocol_forward_returns (n : Nat) (hn : 0 < n) (ef : Bool) (acts : List Act) (s s' : St)
    (h : run n ef s acts = some s') (hc : s.c = .idle) (hcnt : 2 * n + 3 ≤ acts.countP isFwd) :
    s.fwds + 1 ≤ s'.fwds :=
  forward_returns hn acts s s' h hc hcnt

/-! ### non-vacuity and the role of the exit order -/

/-- capacity 1, two threads: thread 0 claims ID 0, creates and destroys a guard and exits; thread 1 reuses
    ID 0 and creates a guard; then two forwards (the second stops before its last store) -/
def reuseActs : List Act :=
  [.id (.begin 0 0), .id (.atom 0), .id (.atom 0), .create 0, .wstep 0, .wstep 0, .wstep 0, .wstep 0, .wstep 0,
   .id (.beginExit 0), .id (.atom 0), .id (.atom 0),
   .id (.begin 1 0), .id (.atom 1), .id (.atom 1), .create 1, .wstep 1, .wstep 1, .wstep 1, .wstep 1,
   .fwd, .fwd, .fwd, .fwd, .fwd, .fwd, .fwd, .fwd, .fwd]

/-- the hypotheses of `c04_protocol` are satisfiable, with ID reuse: the reusing thread's guard (epoch 256) is
    in `must` at the `storeM` state of the second forward -/
theorem c04_protocol_nonvacuous :
    (run 1 Gen.heartbeatExpiresFirst (mkSt Gen.epochConsts.kInitialEpoch 1 2) reuseActs).map
      (fun s => (s.c, s.must, decide (s.G < sizeMax))) = some (.storeM 257 [258, 257, 256], [(1, 0, 256)], true) := by
  decide +kernel

/-- the schedule of the original exit order (reservation flag cleared first — the defect repaired by the `fix:`
    commit for C15): thread 1 claims ID 0 between the two steps of thread 0's exit path -/
def raceActs : List Act :=
  [.id (.begin 0 0), .id (.atom 0), .id (.atom 0), .create 0, .wstep 0, .wstep 0, .wstep 0, .wstep 0, .wstep 0,
   .id (.beginExit 0), .id (.atom 0),
   .id (.begin 1 0), .id (.atom 1), .id (.atom 1), .create 1, .wstep 1, .wstep 1, .wstep 1, .id (.atom 0),
   .fwd, .fwd, .fwd, .fwd, .fwd, .fwd, .fwd]

/-- with that order the guard is lost: thread 1 finds thread 0's heartbeat unexpired and does not rebind the
    slot, the heartbeat then expires, the scan skips the slot, and epoch 256 is missing from the list published
    by the second forward.  (With the current order `raceActs` is not a run at all: the claim fails.) -/
theorem c04_protocol_fails_with_original_exit_order :
    (run 1 false (mkSt Gen.epochConsts.kInitialEpoch 1 2) raceActs).map
      (fun s => (s.c, s.must, wpc s 1)) = some (.storeM 257 [258, 257], [(1, 0, 256)], .guarded 256) ∧
    run 1 true (mkSt Gen.epochConsts.kInitialEpoch 1 2) raceActs = none := by
  decide +kernel

end CppUtil.Props
