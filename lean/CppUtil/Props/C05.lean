/-
  C05 — thread IDs are unique among live threads, in range and stable.
  IDManager model (`Model/IdMgr.lean`): any capacity `n ≥ 1`, any number of threads (more than `n`
  included), any probe start, any interleaving of the probing steps (`load`, then `exchange`).
-/
import CppUtil.Proofs.IdMgrInv
import CppUtil.Gen.Thread

namespace CppUtil.Props
open CppUtil CppUtil.IdMgr

/-- **in range**: whatever ID a thread holds (or probes) is below the capacity -/
theorem c05_in_range (n : Nat) (hn : 0 < n) (ef : Bool) (nthreads : Nat) (acts : List Act) (s : St)
    (h : run n ef (mkSt n nthreads) acts = some s) (t id : Nat) (ht : s.threads[t]? = some (.owner id)) :
    id < n :=
  (inv_run hn (inv_init n nthreads ef) h).pos _ (List.mem_of_getElem? ht) id rfl

/-- **unique**: two threads that are both running user code (neither has begun its exit cleanup)
    never hold the same ID -/
theorem c05_unique (n : Nat) (hn : 0 < n) (ef : Bool) (nthreads : Nat) (acts : List Act) (s : St)
    (h : run n ef (mkSt n nthreads) acts = some s) (t1 t2 id : Nat) (hne : t1 ≠ t2)
    (h1 : s.threads[t1]? = some (.owner id)) (h2 : s.threads[t2]? = some (.owner id)) : False := by
  have hI := inv_run hn (inv_init n nthreads ef) h
  have hid : id < n := hI.pos _ (List.mem_of_getElem? h1) id rfl
  -- removing t1 (set it to `dead`) lowers the reservation count by one, and t2 still counts
  have hc := resCount_set ef s t1 (.owner id) .dead id h1
  have h2' : (setT s t1 .dead).threads[t2]? = some (.owner id) := by
    simp only [setT]; rw [List.getElem?_set_ne hne]; exact h2
  have hpos : 0 < resCount ef (setT s t1 .dead) id := by
    unfold resCount
    apply List.countP_pos_iff.mpr
    exact ⟨_, List.mem_of_getElem? h2', by simp [reserves]⟩
  have := hI.cnt id hid
  simp [reserves] at hc
  split at this <;> omega

/-- **stable**: a thread keeps its ID in every transition except the beginning of its own exit -/
theorem c05_stable (n : Nat) (ef : Bool) (s s' : St) (a : Act) (e : Option Ev) (t id : Nat)
    (ht : s.threads[t]? = some (.owner id)) (h : step n ef s a = some (s', e)) :
    s'.threads[t]? = some (.owner id) ∨ (∃ t', a = .beginExit t' ∧ t' = t) := by
  have other : ∀ (t' : Nat) (l : TLoc) (sl al : List Bool), t' ≠ t →
      ({ slots := sl, threads := s.threads.set t' l, alive := al } : St).threads[t]? = some (.owner id) := by
    intro t' l sl al hne
    show (s.threads.set t' l)[t]? = _
    rw [List.getElem?_set_ne hne]; exact ht
  cases a with
  | begin t' st =>
    simp only [step] at h
    split at h
    · rename_i ht'
      simp only [Option.some.injEq, Prod.mk.injEq] at h
      left; rw [← h.1]
      by_cases hh : t' = t
      · subst hh; rw [ht] at ht'; cases ht'
      · exact other t' _ _ _ hh
    · cases h
  | beginExit t' =>
    by_cases hh : t' = t
    · right; exact ⟨t', rfl, hh⟩
    · left
      simp only [step] at h
      split at h
      · simp only [Option.some.injEq, Prod.mk.injEq] at h
        rw [← h.1]; exact other t' _ _ _ hh
      · simp only [Option.some.injEq, Prod.mk.injEq] at h
        rw [← h.1]; exact other t' _ _ _ hh
      · cases h
  | atom t' =>
    left
    by_cases hh : t' = t
    · subst hh
      simp only [step, ht] at h
      cases h
    · simp only [step] at h
      split at h
      · split at h <;> (simp only [Option.some.injEq, Prod.mk.injEq] at h; rw [← h.1]; exact other t' _ _ _ hh)
      · split at h <;> (simp only [Option.some.injEq, Prod.mk.injEq] at h; rw [← h.1]; exact other t' _ _ _ hh)
      · split at h <;> (simp only [Option.some.injEq, Prod.mk.injEq] at h; rw [← h.1]; exact other t' _ _ _ hh)
      · split at h <;> (simp only [Option.some.injEq, Prod.mk.injEq] at h; rw [← h.1]; exact other t' _ _ _ hh)
      · cases h

/-- non-vacuity: capacity 2, three threads with the same probe start (full collision): two become
    owners of different IDs, the third keeps probing -/
example : ∃ s, run 2 true (mkSt 2 3)
    [.begin 0 0, .begin 1 0, .begin 2 0, .atom 0, .atom 1, .atom 0, .atom 1, .atom 1, .atom 1, .atom 2] = some s ∧
    s.threads[0]? = some (.owner 1) ∧ s.threads[1]? = some (.owner 0) := ⟨_, rfl, rfl, rfl⟩

/-- the assumption `c05_stable` rests on — a thread that holds an ID does not enter the claim loop again — is the
    shape of `HeartBeater::HasID` ("the ID pointer is non-null"), extracted from the source on every run -/
theorem c05_accessors_as_modelled : Gen.heartBeaterAccessorsAsModelled = true := by decide

end CppUtil.Props
