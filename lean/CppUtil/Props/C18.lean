/-
  C18 — the exact Zipf CDF follows Zipf's law; the approximation stays close.
  Proved (exact arithmetic over any linearly ordered field, any positive `pw i = i^alpha` with
  `pw 1 = 1`): the table entries are the normalised partial sums, the table is non-decreasing, its last
  entry is 1, the approximate class equals the exact one for `n ≤ kExactBinNum`, and its last bin is
  `H(n)/H(n) = 1`.
  NOT provable here (tested only; DESIGN.md §6 C18): "up to floating-point rounding" and "within 0.01
  for n ≥ 1000, 0 ≤ alpha ≤ 3" — the `Float` instance of the same definitions is compared bit for bit with
  the implementation, and the implementation with a long double reference (known finding F9).
-/
import CppUtil.Proofs.ZipfTable
import CppUtil.Gen.Zipf

namespace CppUtil.Props
open CppUtil CppUtil.Zipf

variable {K : Type} [Field K] [LinearOrder K] [IsStrictOrderedRing K]

theorem c18_exact_entries (pw pw' lg : Nat → K) (z : Bool) (two : K) (hpw : ∀ i, 0 < pw i) (hpw1 : pw 1 = 1)
    (n : Nat) (hn : 2 ≤ n) :
    (∀ k, k < n - 1 → (exactTable (fieldArith pw pw' lg z two) n).getD k 0 = S pw (k + 1) / S pw n) ∧
    (exactTable (fieldArith pw pw' lg z two) n).getD (n - 1) 0 = 1 :=
  exactTable_spec pw pw' lg z two hpw hpw1 n hn

theorem c18_exact_monotone (pw pw' lg : Nat → K) (z : Bool) (two : K) (hpw : ∀ i, 0 < pw i) (hpw1 : pw 1 = 1)
    (n : Nat) (hn : 2 ≤ n) (i j : Nat) (hij : i ≤ j) (hj : j < n) :
    (exactTable (fieldArith pw pw' lg z two) n).getD i 0 ≤ (exactTable (fieldArith pw pw' lg z two) n).getD j 0 :=
  exactTable_mono pw pw' lg z two hpw hpw1 n hn i j hij hj

/-- one bin: the table is `[1]` (also the default-constructed generator) -/
theorem c18_one_bin (pw pw' lg : Nat → K) (z : Bool) (two : K) (n : Nat) (hn : n ≤ 1) :
    exactTable (fieldArith pw pw' lg z two) n = #[1] := by
  unfold exactTable; rw [if_pos hn]; rfl

theorem c18_approx_equals_exact (pw pw' lg : Nat → K) (z : Bool) (two : K) (n : Nat) (hn : 2 ≤ n)
    (hE : n ≤ Gen.zipfExactBinNum) (k : Nat) (hk : k < n) :
    (approxHead (fieldArith pw pw' lg z two) n Gen.zipfExactBinNum Gen.zipfSkipSize).getD k 0 =
    (exactTable (fieldArith pw pw' lg z two) n).getD k 0 :=
  approxHead_eq_exact pw pw' lg z two n _ _ hn hE k hk

theorem c18_approx_last_is_one (pw pw' lg : Nat → K) (z : Bool) (two : K) (head : Array K) (n : Nat)
    (hn : Gen.zipfExactBinNum < n) (hne : harmonic (fieldArith pw pw' lg z two) n ≠ 0) :
    approxCDF (fieldArith pw pw' lg z two) head (harmonic (fieldArith pw pw' lg z two) n) Gen.zipfExactBinNum (n - 1) = 1 :=
  approxCDF_last pw pw' lg z two head n _ hn hne

end CppUtil.Props
