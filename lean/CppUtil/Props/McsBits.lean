/-
  MCSLock, tie-G obligations at the regenerated constants: bit-level meaning of the expressions the
  code applies to lock words and node words (layout of design_doc/lock.md: bit 63 X, bit 62 SIX,
  bits 61..47 shared counter, bits 46..0 node pointer), and the shape of the two repaired sites.
  (`bv_decide`: one `…._native.bv_decide.ax_*` axiom per lemma.)
-/
import Std.Tactic.BVDecide
import CppUtil.Gen.Mcs
import CppUtil.Model.Mcs

namespace CppUtil.Props.McsBits
open CppUtil

abbrev C := Gen.mcsConsts

macro "mbits" : tactic =>
  `(tactic| ((try simp only [Gen.mcsConsts] at *); (try unfold Word at *); bv_decide))

def xb (w : Word) : Bool := w.getLsbD 63
def sixb (w : Word) : Bool := w.getLsbD 62
def sfield (w : Word) : BitVec 15 := w.extractLsb' 47 15
def pfield (w : Word) : BitVec 47 := w.extractLsb' 0 47

/-- joining a group: `cur + kSLock` increments the shared counter and touches nothing else (below capacity) -/
theorem add_s (w : Word) (h : sfield w ≠ BitVec.allOnes 15) :
    xb (w + C.kSLock) = xb w ∧ sixb (w + C.kSLock) = sixb w ∧ sfield (w + C.kSLock) = sfield w + 1 ∧
    pfield (w + C.kSLock) = pfield w := by
  simp only [xb, sixb, sfield, pfield] at *; mbits

theorem sub_s (w : Word) (h : sfield w ≠ 0) :
    xb (w - C.kSLock) = xb w ∧ sixb (w - C.kSLock) = sixb w ∧ sfield (w - C.kSLock) = sfield w - 1 ∧
    pfield (w - C.kSLock) = pfield w := by
  simp only [xb, sixb, sfield, pfield] at *; mbits

/-- conversions: `cur ^ kXMask` flips exactly bits 62 and 63 -/
theorem xor_xmask (w : Word) :
    xb (w ^^^ C.kXMask) = !xb w ∧ sixb (w ^^^ C.kXMask) = !sixb w ∧ sfield (w ^^^ C.kXMask) = sfield w ∧
    pfield (w ^^^ C.kXMask) = pfield w := by
  simp only [xb, sixb, sfield, pfield]; mbits

theorem xor_x (w : Word) :
    xb (w ^^^ C.kXLock) = !xb w ∧ sixb (w ^^^ C.kXLock) = sixb w ∧ sfield (w ^^^ C.kXLock) = sfield w ∧
    pfield (w ^^^ C.kXLock) = pfield w := by
  simp only [xb, sixb, sfield, pfield]; mbits

theorem xor_six (w : Word) :
    xb (w ^^^ C.kSIXLock) = xb w ∧ sixb (w ^^^ C.kSIXLock) = !sixb w ∧ sfield (w ^^^ C.kSIXLock) = sfield w ∧
    pfield (w ^^^ C.kSIXLock) = pfield w := by
  simp only [xb, sixb, sfield, pfield]; mbits

/-- linking: `fetch_add(ptr)` on a word whose pointer field is empty sets exactly that field -/
theorem link_add (w p : Word) (hw : pfield w = 0) (hp : p &&& C.kLockMask = 0) :
    xb (w + p) = xb w ∧ sixb (w + p) = sixb w ∧ sfield (w + p) = sfield w ∧ pfield (w + p) = pfield p := by
  simp only [xb, sixb, sfield, pfield] at *; mbits

/-- the masks partition the word -/
theorem masks : C.kPtrMask ||| C.kLockMask = BitVec.allOnes 64 ∧ C.kPtrMask &&& C.kLockMask = 0 ∧
    C.kSMask ||| C.kXMask = C.kLockMask ∧ C.kSMask &&& C.kXMask = 0 ∧ C.kXMask = C.kXLock ||| C.kSIXLock := by
  mbits

/-- repaired publish site (F3): replacing the placeholder flag by the predecessor's flags with an
    exclusive-or keeps whatever pointer a successor has linked in the meantime -/
theorem publish_keeps_link (p flags : Word) (hp : p &&& C.kLockMask = 0) (hf : flags &&& C.kPtrMask = 0) :
    (C.kXLock ||| p) ^^^ (C.kXLock ^^^ flags) = flags ||| p := by
  mbits

/-- the original publish site (a plain store of the flags) does *not* keep the link: witness -/
theorem store_loses_link : ∃ p flags : Word, p ≠ 0 ∧ p &&& C.kLockMask = 0 ∧ flags &&& C.kPtrMask = 0 ∧
    flags ≠ (flags ||| p) := ⟨1, 0, by decide, by decide, by decide, by decide⟩

/-- repaired UnlockS test (F2): "the value before the decrement held exactly one shared holder and no
    SIX / X flag" is what `(old & kLockMask) == kSLock` says -/
theorem last_shared_test (old : Word) :
    ((old &&& C.kLockMask) == C.kSLock) = true ↔ (xb old = false ∧ sixb old = false ∧ sfield old = 1) := by
  simp only [xb, sixb, sfield]; mbits

/-- the original test `(old & kSMask) == kNoLocks` is false for every value a shared holder can decrement -/
theorem old_test_never (old : Word) (h : sfield old ≠ 0) : ((old &&& C.kSMask) == C.kNoLocks) = false := by
  simp only [sfield] at *; mbits

/-- tail test of UnlockS: `(cur - kSLock) & (kSMask | kSIXLock)` is zero iff no other shared holder and
    no SIX holder remain -/
theorem unlockS_empty_test (cur : Word) (h : sfield cur ≠ 0) :
    (((cur - C.kSLock) &&& (C.kSMask ||| C.kSIXLock)) = 0) ↔ (sfield cur = 1 ∧ sixb cur = false) := by
  simp only [sixb, sfield] at *; mbits

/-- tie G: which operation publishes the predecessor flags in LockSIX / LockX in the current source -/
theorem publish_is_rmw : Gen.mcsPublishIsStore = false := by decide

end CppUtil.Props.McsBits
