/-
  C12 — MCS queue nodes are neither leaked nor touched after recycling.
  Status: model ↔ code correspondence includes every node allocation / free (tokens NA / NF) and
  canonical node numbers in every word; the node monitor counts live nodes and the harness reports
  nodes still allocated after all threads exited; the thorough tier runs under AddressSanitizer.
  Proved here: the bit-level obligations of the two recycling tests (including the repaired one, F2).
  The heap invariant (DESIGN.md §5.3, clauses 4–5) is not mechanised yet.
-/
import CppUtil.Props.McsBits
import CppUtil.Props.McsProto

namespace CppUtil.Props
open CppUtil CppUtil.Props.McsBits

/-- UnlockS recycles the group's node exactly when the decremented successor word held one shared
    holder and no SIX / X flag (repaired test), for every word -/
theorem c12_unlockS_recycle_test (old : Word) :
    ((old &&& C.kLockMask) == C.kSLock) = true ↔ (xb old = false ∧ sixb old = false ∧ sfield old = 1) :=
  last_shared_test old

/-- UnlockSIX / UnlockX recycle exactly when no shared member of the group remains -/
theorem c12_unlockX_recycle_test (old : Word) :
    ((old &&& C.kSMask) == C.kNoLocks) = true ↔ sfield old = 0 := by
  simp only [sfield]; mbits

/-- the tail-release test of UnlockS -/
theorem c12_unlockS_tail_test (cur : Word) (h : sfield cur ≠ 0) :
    (((cur - C.kSLock) &&& (C.kSMask ||| C.kSIXLock)) = 0) ↔ (sfield cur = 1 ∧ sixb cur = false) :=
  unlockS_empty_test cur h

/-- C12, first half, for every reachable state: no step of any request ever reads or writes a queue node
    that has been freed (the model counts such accesses in `uaf`; the count stays 0).  From the protocol
    invariant: a node is owned by exactly one of a not-yet-queued request, a thread's cache, a lock's queue,
    and every node a step touches is owned (hence live). -/
theorem c12_mcs_no_use_after_free (nlocks nthreads : Nat) (acts : List Mcs.Act)
    (hr : Mcs.RunOK CppUtil.Props.mcsPb CppUtil.Props.mcsCb CppUtil.Props.mcsParams (Mcs.mkSt nlocks nthreads) acts) :
    (Mcs.run CppUtil.Props.mcsParams (Mcs.mkSt nlocks nthreads) acts).uaf = 0 :=
  CppUtil.Props.mcs_no_use_after_free nlocks nthreads acts hr

/-- C12, second half: no node is lost.  Every live node is a thread's cached spare or the node of an unfinished
    request (bound: #threads + #outstanding requests); at quiescence only cached spares remain. -/
theorem c12_mcs_live_nodes_accounted (nlocks nthreads : Nat) (acts : List Mcs.Act)
    (hr : Mcs.RunOK CppUtil.Props.mcsPb CppUtil.Props.mcsCb CppUtil.Props.mcsParams (Mcs.mkSt nlocks nthreads) acts)
    (k : Nat) (hk : Mcs.nodeLive (Mcs.run CppUtil.Props.mcsParams (Mcs.mkSt nlocks nthreads) acts) k = true) :
    (∃ t : Nat, (Mcs.run CppUtil.Props.mcsParams (Mcs.mkSt nlocks nthreads) acts).tls[t]? = some (some k)) ∨
    (∃ (i : Nat) (a : Mcs.Agent), (Mcs.run CppUtil.Props.mcsParams (Mcs.mkSt nlocks nthreads) acts).agents[i]? = some a ∧
      a.loc ≠ Mcs.Loc.done ∧ a.qnode = k) :=
  CppUtil.Props.mcs_live_nodes_accounted nlocks nthreads acts hr k hk

theorem c12_mcs_no_leak_at_quiescence (nlocks nthreads : Nat) (acts : List Mcs.Act)
    (hr : Mcs.RunOK CppUtil.Props.mcsPb CppUtil.Props.mcsCb CppUtil.Props.mcsParams (Mcs.mkSt nlocks nthreads) acts)
    (hdone : ∀ a ∈ (Mcs.run CppUtil.Props.mcsParams (Mcs.mkSt nlocks nthreads) acts).agents, a.loc = Mcs.Loc.done)
    (k : Nat) (hk : Mcs.nodeLive (Mcs.run CppUtil.Props.mcsParams (Mcs.mkSt nlocks nthreads) acts) k = true) :
    ∃ t : Nat, (Mcs.run CppUtil.Props.mcsParams (Mcs.mkSt nlocks nthreads) acts).tls[t]? = some (some k) :=
  CppUtil.Props.mcs_no_leak_at_quiescence nlocks nthreads acts hr hdone k hk

end CppUtil.Props
