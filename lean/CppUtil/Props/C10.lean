/-
  C10 — upgrade and downgrade convert a grant without a gap (PessimisticLock, OptimisticLock).
-/
import CppUtil.Props.C01
import CppUtil.Proofs.WLockMore

namespace CppUtil.Props
open CppUtil CppUtil.WLock

/-- While an agent holds SIX or X — from the granting step of `LockSIX` / `LockX`, through the waiting
    loop of `UpgradeToX` (the upgrader keeps its SIX grant), the flip, `DowngradeToSIX`, up to its
    release — no other agent holds SIX or X. -/
theorem c10_no_other_sixx_pess (r : Nat) (acts : List Act) (s : St)
    (h : run (Gen.pess r) init acts = some s) (hcap : s.agents.length < 2 ^ 62)
    (i j : Nat) (mi mj : Mode) (hij : i ≠ j) (hi : holds s i mi) (hj : holds s j mj)
    (hm : mi = .SIX ∨ mi = .X) : mj = .S ∧ mi = .SIX := by
  have := c01_pess r acts s h hcap i j mi mj hij hi hj
  rcases hm with rfl | rfl <;> cases mj <;> simp [conflict] at this ⊢

theorem c10_no_other_sixx_opt (r : Nat) (acts : List Act) (s : St)
    (h : run (Gen.opt r) init acts = some s) (hcap : s.agents.length < 2 ^ 30)
    (i j : Nat) (mi mj : Mode) (hij : i ≠ j) (hi : holds s i mi) (hj : holds s j mj)
    (hm : mi = .SIX ∨ mi = .X) : mj = .S ∧ mi = .SIX := by
  have := c01_opt r acts s h hcap i j mi mj hij hi hj
  rcases hm with rfl | rfl <;> cases mj <;> simp [conflict] at this ⊢

/-- No gap: a granted agent remains granted after every transition other than its own release
    (holds for every parameter set: it is a fact about the control structure). -/
theorem c10_no_gap (P : WParams) (s s' : St) (a : Act) (e : Option Ev) (i : Nat) (m : Mode)
    (hg : grantOf s i = some m) (h : step P s a = some (s', e)) :
    (∃ nv, a = .release i nv) ∨ (grantOf s' i).isSome = true :=
  grant_continuous hg h

/-- `UpgradeToX` is granted only from a state without shared holders, and leaves exactly one X and no
    SIX / S grant. -/
theorem c10_upgrade_alone_pess (r : Nat) (acts : List Act) (s s' : St) (i : Nat) (seen seen' : Word)
    (ov : Option Word) (sp : Bool) (e : Ev)
    (h : run (Gen.pess r) init acts = some s) (hcap : s.agents.length < 2 ^ 62)
    (hi : s.agents[i]? = some (.upgCas seen))
    (hst : atomStep (Gen.pess r) s i (.upgCas seen) ov sp = some (s', e))
    (hgr : s'.agents[i]? = some (.held .X seen')) :
    cnt s .S = 0 ∧ cnt s' .S = 0 ∧ cnt s' .SIX = 0 ∧ cnt s' .X = 1 :=
  upgrade_grants_alone (pess_specs r)
    (inv_reachable (pess_specs r) ⟨acts, h⟩ (by simpa [pessDecoder] using hcap)) hi
    (by simpa [pessDecoder] using hcap) hst hgr

theorem c10_upgrade_alone_opt (r : Nat) (acts : List Act) (s s' : St) (i : Nat) (seen seen' : Word)
    (ov : Option Word) (sp : Bool) (e : Ev)
    (h : run (Gen.opt r) init acts = some s) (hcap : s.agents.length < 2 ^ 30)
    (hi : s.agents[i]? = some (.upgCas seen))
    (hst : atomStep (Gen.opt r) s i (.upgCas seen) ov sp = some (s', e))
    (hgr : s'.agents[i]? = some (.held .X seen')) :
    cnt s .S = 0 ∧ cnt s' .S = 0 ∧ cnt s' .SIX = 0 ∧ cnt s' .X = 1 :=
  upgrade_grants_alone (opt_specs r)
    (inv_reachable (opt_specs r) ⟨acts, h⟩ (by simpa [optDecoder] using hcap)) hi
    (by simpa [optDecoder] using hcap) hst hgr

/-- non-vacuity: the upgrade of `demoUpg` (C01) is such a step -/
example : ∃ s s' e seen, run (Gen.opt 1) init (demoUpg.take 12) = some s ∧
    s.agents[0]? = some (.upgCas seen) ∧
    atomStep (Gen.opt 1) s 0 (.upgCas seen) none false = some (s', e) ∧
    s'.agents[0]? = some (.held .X seen) := ⟨_, _, _, _, rfl, rfl, rfl, rfl⟩

/-- C10 for MCSLock: while a SIX or X grant is held (including the whole of an upgrade or downgrade, whose
    grant is continuous in the model: `upg` phases count as SIX, `dng` phases as X), every other grant on that
    lock is S. -/
theorem c10_mcs (nlocks nthreads : Nat) (acts : List Mcs.Act)
    (hr : Mcs.RunOK mcsPb mcsCb mcsParams (Mcs.mkSt nlocks nthreads) acts)
    (i j : Nat) (a b : Mcs.Agent) (m m' : Mode) (hij : i ≠ j)
    (hi : (Mcs.run mcsParams (Mcs.mkSt nlocks nthreads) acts).agents[i]? = some a)
    (hj : (Mcs.run mcsParams (Mcs.mkSt nlocks nthreads) acts).agents[j]? = some b) (hlk : a.lk = b.lk)
    (hga : a.loc.grant? = some m) (hgb : b.loc.grant? = some m') (hm : m ≠ .S) : m' = .S :=
  mcs_single_sixx nlocks nthreads acts hr i j a b m m' hij hi hj hlk hga hgb hm

end CppUtil.Props
