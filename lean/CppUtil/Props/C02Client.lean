/-
  C02, last sentence, at the level of the guard classes: "After the last guard is gone the lock is free again, i.e. a
  fresh exclusive request succeeds without waiting" — for every state reachable by any schedule of any well-formed
  client program over PessimisticLock / OptimisticLock guards.
  Guard algebra (`c07_client_quiescent`: all threads finished + all guards gone ⇒ no request holds a grant) +
  `reachable_locks` + the lock theorem `c02_quiescent_free_*`.
-/
import CppUtil.Props.C02
import CppUtil.Props.C07
import CppUtil.Proofs.WClientReach

namespace CppUtil.Props
open CppUtil CppUtil.WLock CppUtil.WClient

theorem client_quiescent_no_grants {P : WParams} {vo : Nat → Nat} {c0 c : Client} (hi : Initial c0) (hwf : WF vo c0)
    (hr : ReachableC P c0 c) (hfin : ∀ t, t < c.threads.size → (getThread c t).finished = true)
    (hvars : ∀ v, own c v = none) (lk : Nat) : ∀ l ∈ (lockSt c lk).agents, l.grant? = none := by
  intro l hl
  obtain ⟨i, hi', hget⟩ := List.getElem_of_mem hl
  have := c07_client_quiescent hi hwf hr hfin hvars lk i
  simp only [agentLoc_eq, List.getElem?_eq_getElem hi', hget, Option.getD_some] at this
  exact this

/-- when every thread has finished and every guard is gone, every PessimisticLock word is completely free and the
    admission test of a fresh `LockX` passes at once -/
theorem c02_client_quiescent_lock_free_pess (r : Nat) {vo : Nat → Nat} {c0 c : Client} (hi : Initial c0) (hwf : WF vo c0)
    (hr : ReachableC (Gen.pess r) c0 c) (hfin : ∀ t, t < c.threads.size → (getThread c t).finished = true)
    (hvars : ∀ v, own c v = none) (lk : Nat) (hcap : (lockSt c lk).agents.length < 2 ^ 62) :
    (lockSt c lk).w.getLsbD 63 = false ∧ (lockSt c lk).w.getLsbD 62 = false ∧
    ((lockSt c lk).w.extractLsb' 0 62).toNat = 0 ∧ (Gen.pess r).lockGuard .X (lockSt c lk).w = true := by
  obtain ⟨acts, hrun⟩ := reachable_locks (P := Gen.pess r) hi hr lk
  exact c02_quiescent_free_pess r acts (lockSt c lk) hrun hcap (client_quiescent_no_grants hi hwf hr hfin hvars lk)

/-- the same for OptimisticLock (whatever versions were published meanwhile) -/
theorem c02_client_quiescent_lock_free_opt (r : Nat) {vo : Nat → Nat} {c0 c : Client} (hi : Initial c0) (hwf : WF vo c0)
    (hr : ReachableC (Gen.opt r) c0 c) (hfin : ∀ t, t < c.threads.size → (getThread c t).finished = true)
    (hvars : ∀ v, own c v = none) (lk : Nat) (hcap : (lockSt c lk).agents.length < 2 ^ 30) :
    (lockSt c lk).w.getLsbD 63 = false ∧ (lockSt c lk).w.getLsbD 62 = false ∧
    ((lockSt c lk).w.extractLsb' 32 30).toNat = 0 ∧ (Gen.opt r).lockGuard .X (lockSt c lk).w = true := by
  obtain ⟨acts, hrun⟩ := reachable_locks (P := Gen.opt r) hi hr lk
  exact c02_quiescent_free_opt r acts (lockSt c lk) hrun hcap (client_quiescent_no_grants hi hwf hr hfin hvars lk)

end CppUtil.Props
