/-
  C01 — lock-mode compatibility (S/SIX/X matrix) is never violated.
  Property theorems only; helper lemmas live in `Proofs/`, tie-G obligations in `Props/WSpecs`.

  PessimisticLock / OptimisticLock: proved for every reachable state of the word-lock model at
  the regenerated parameters: any number of requests (agents), any client behaviour (any order of
  Lock*/TryLock*/PrepareRead/Upgrade/Downgrade/release), any interleaving, any value returned by the
  relaxed pre-loads, spurious CAS failures.  A granted agent is one between the step in which its
  acquiring CAS succeeds and the step that releases it; an upgrader keeps its SIX grant while it waits.
  Capacity hypothesis: fewer requests than the documented width of the shared counter (2^62 / 2^30).

  MCSLock: `c01_mcs` (= `mcs_exclusion`, `Props/McsProto.lean`): the same statement for every reachable state of
  the step-faithful MCS model, from the protocol invariant of `Proofs/Mcs*.lean` (queue of groups, meaning of
  every lock / node word, node ownership), at the regenerated constants.
-/
import CppUtil.Props.WSpecs
import CppUtil.Props.McsProto

namespace CppUtil.Props
open CppUtil CppUtil.WLock

/-- grants held in state `s`, as (agent, mode) -/
def holds (s : St) (i : Nat) (m : Mode) : Prop := ∃ l, s.agents[i]? = some l ∧ l.grant? = some m

/-- C01 for PessimisticLock. -/
theorem c01_pess (r : Nat) (acts : List Act) (s : St)
    (h : run (Gen.pess r) init acts = some s) (hcap : s.agents.length < 2 ^ 62) :
    ∀ i j mi mj, i ≠ j → holds s i mi → holds s j mj → conflict mi mj = false := by
  intro i j mi mj hij ⟨li, hi, gi⟩ ⟨lj, hj, gj⟩
  have hI := inv_reachable (pess_specs r) ⟨acts, h⟩ (by simpa [pessDecoder] using hcap)
  exact excl_of_inv hI hij hi hj gi gj

/-- C01 for OptimisticLock (includes TryLock* grants and PrepareRead's shared fallback). -/
theorem c01_opt (r : Nat) (acts : List Act) (s : St)
    (h : run (Gen.opt r) init acts = some s) (hcap : s.agents.length < 2 ^ 30) :
    ∀ i j mi mj, i ≠ j → holds s i mi → holds s j mj → conflict mi mj = false := by
  intro i j mi mj hij ⟨li, hi, gi⟩ ⟨lj, hj, gj⟩
  have hI := inv_reachable (opt_specs r) ⟨acts, h⟩ (by simpa [optDecoder] using hcap)
  exact excl_of_inv hI hij hi hj gi gj

/-- The lock word always tells the truth about the grants: X bit ⇔ an X holder exists, etc.
    (what "never observed half-updated" rests on: a writer is alone). -/
theorem c01_word_counts_opt (r : Nat) (acts : List Act) (s : St)
    (h : run (Gen.opt r) init acts = some s) (hcap : s.agents.length < 2 ^ 30) :
    cnt s .X = (if s.w.getLsbD 63 then 1 else 0) ∧ cnt s .SIX = (if s.w.getLsbD 62 then 1 else 0) ∧
    cnt s .S = (s.w.extractLsb' 32 30).toNat := by
  have hI := inv_reachable (opt_specs r) ⟨acts, h⟩ (by simpa [optDecoder] using hcap)
  exact ⟨hI.cx, hI.csix, hI.cs⟩

theorem c01_word_counts_pess (r : Nat) (acts : List Act) (s : St)
    (h : run (Gen.pess r) init acts = some s) (hcap : s.agents.length < 2 ^ 62) :
    cnt s .X = (if s.w.getLsbD 63 then 1 else 0) ∧ cnt s .SIX = (if s.w.getLsbD 62 then 1 else 0) ∧
    cnt s .S = (s.w.extractLsb' 0 62).toNat := by
  have hI := inv_reachable (pess_specs r) ⟨acts, h⟩ (by simpa [pessDecoder] using hcap)
  exact ⟨hI.cx, hI.csix, hI.cs⟩

/-! Non-vacuity: concrete reachable states with several simultaneous grants. -/

/-- three agents: S, S and SIX granted at once (compatible), on the pessimistic lock -/
def demoActs : List Act :=
  [.spawn, .spawn, .spawn,
   .start 0 (.lock .S), .start 1 (.lock .S), .start 2 (.lock .SIX),
   .atom 0 none false, .atom 0 none false,
   .atom 1 none false, .atom 1 none false,
   .atom 2 none false, .atom 2 none false]

example : ∃ s, run (Gen.pess 1) init demoActs = some s ∧
    holds s 0 .S ∧ holds s 1 .S ∧ holds s 2 .SIX ∧ s.agents.length < 2 ^ 62 := by
  refine ⟨_, rfl, ⟨_, rfl, rfl⟩, ⟨_, rfl, rfl⟩, ⟨_, rfl, rfl⟩, by decide⟩

/-- an upgrade that has to wait for a reader, then X is granted alone (optimistic lock) -/
def demoUpg : List Act :=
  [.spawn, .spawn,
   .start 0 (.lock .SIX), .start 1 (.lock .S),
   .atom 0 none false, .atom 0 none false,     -- SIX granted
   .atom 1 none false, .atom 1 none false,     -- S granted
   .upgrade 0, .atom 0 none false,             -- upgrade waits (stutter)
   .release 1 0,                               -- reader leaves
   .atom 0 none false, .atom 0 none false]     -- X granted

example : ∃ s, run (Gen.opt 1) init demoUpg = some s ∧ holds s 0 .X ∧ s.agents.length < 2 ^ 30 := by
  refine ⟨_, rfl, ⟨_, rfl, rfl⟩, by decide⟩

/-- C01 for MCSLock. -/
theorem c01_mcs (nlocks nthreads : Nat) (acts : List Mcs.Act)
    (hr : Mcs.RunOK mcsPb mcsCb mcsParams (Mcs.mkSt nlocks nthreads) acts)
    (i j : Nat) (a b : Mcs.Agent) (m m' : Mode) (hij : i ≠ j)
    (hi : (Mcs.run mcsParams (Mcs.mkSt nlocks nthreads) acts).agents[i]? = some a)
    (hj : (Mcs.run mcsParams (Mcs.mkSt nlocks nthreads) acts).agents[j]? = some b) (hlk : a.lk = b.lk)
    (hga : a.loc.grant? = some m) (hgb : b.loc.grant? = some m') : conflict m m' = false :=
  mcs_exclusion nlocks nthreads acts hr i j a b m m' hij hi hj hlk hga hgb

end CppUtil.Props
