/-
  C07 — guards own exactly one grant and release it exactly once.
  Core part (word locks): a grant can be released only while it is held, and a released request is
  finished for good, so no execution releases a grant twice.
  Guard classes (second half of this file): the client model `Model/WClient.lean` — the guard classes of
  PessimisticLock / OptimisticLock as compared instruction by instruction with the real code — keeps, for
  every well-typed program, any number of threads / locks / guard variables and EVERY schedule, the
  guard-algebra invariant of `Proofs/WClientDefs.lean`:
  a guard that converts to true owns a live grant of its own class; no two guards (nor a guard and a
  temporary) own the same grant; every grant is owned by a guard, a temporary or the call in progress
  (none is dropped); every release / conversion the guard classes attempt is enabled (none is released
  twice); when all threads have finished and all guards are gone, no grant is left.
-/
import CppUtil.Props.C01
import CppUtil.Proofs.WLockMore
import CppUtil.Proofs.WClientThm

namespace CppUtil.Props
open CppUtil CppUtil.WLock

/-- `release` is enabled exactly on a held grant -/
theorem c07_release_enabled_iff (P : WParams) (s : St) (i : Nat) (nv : BitVec 32) :
    (step P s (.release i nv)).isSome = true ↔ ∃ m seen, s.agents[i]? = some (.held m seen) := by
  simp only [step]
  cases h : s.agents[i]? with
  | none => simp
  | some loc =>
    cases loc <;> simp [releaseStep]
    rename_i m seen
    cases m <;> simp

/-- after its release the request is `done` -/
theorem c07_release_finishes (P : WParams) (s s' : St) (i : Nat) (nv : BitVec 32) (e : Option Ev)
    (h : step P s (.release i nv) = some (s', e)) : ∃ r, s'.agents[i]? = some (.done r) := by
  simp only [step] at h
  split at h
  · rename_i loc hi
    cases hh : releaseStep P s i loc nv with
    | none => rw [hh] at h; simp at h
    | some r =>
      rw [hh] at h
      simp only [Option.map_some, Option.some.injEq, Prod.mk.injEq] at h
      obtain ⟨s1, e1⟩ := r
      simp only at h
      rw [← h.1, release_agents hh]
      exact ⟨0, getElem?_setLoc_self hi⟩
  · cases h

/-- `done` is absorbing: no transition changes a finished request -/
theorem c07_done_absorbing (P : WParams) (s s' : St) (a : Act) (e : Option Ev) (i : Nat) (r : Word)
    (hd : s.agents[i]? = some (.done r)) (h : step P s a = some (s', e)) :
    s'.agents[i]? = some (.done r) := by
  cases a with
  | spawn =>
    simp only [step, Option.some.injEq, Prod.mk.injEq] at h
    rw [← h.1]
    show (s.agents ++ [Loc.idle])[i]? = _
    rw [List.getElem?_append_left (getElem?_lt hd)]; exact hd
  | start j rq =>
    simp only [step] at h
    split at h
    · rename_i hj
      simp only [Option.some.injEq, Prod.mk.injEq] at h
      rw [← h.1]
      by_cases hji : j = i
      · subst hji; rw [hd] at hj; cases hj
      · rw [getElem?_setLoc_ne hji]; exact hd
    · cases h
  | atom j ov sp =>
    simp only [step] at h
    split at h
    · rename_i loc hj
      cases hh : atomStep P s j loc ov sp with
      | none => rw [hh] at h; simp at h
      | some x =>
        rw [hh] at h
        simp only [Option.map_some, Option.some.injEq, Prod.mk.injEq] at h
        obtain ⟨s1, e1⟩ := x
        simp only at h
        rw [← h.1]
        by_cases hji : j = i
        · subst hji; rw [hd] at hj; cases hj; simp [atomStep] at hh
        · rw [atom_other hh hji]; exact hd
    · cases h
  | release j nv =>
    simp only [step] at h
    split at h
    · rename_i loc hj
      cases hh : releaseStep P s j loc nv with
      | none => rw [hh] at h; simp at h
      | some x =>
        rw [hh] at h
        simp only [Option.map_some, Option.some.injEq, Prod.mk.injEq] at h
        obtain ⟨s1, e1⟩ := x
        simp only at h
        rw [← h.1, release_agents hh]
        by_cases hji : j = i
        · subst hji; rw [hd] at hj; cases hj; simp [releaseStep] at hh
        · rw [getElem?_setLoc_ne hji]; exact hd
    · cases h
  | downgrade j nv =>
    simp only [step] at h
    split at h
    · rename_i loc hj
      cases hh : downgradeStep P s j loc nv with
      | none => rw [hh] at h; simp at h
      | some x =>
        rw [hh] at h
        simp only [Option.map_some, Option.some.injEq, Prod.mk.injEq] at h
        obtain ⟨s1, e1⟩ := x
        simp only at h
        obtain ⟨seen, hloc, hag⟩ := downgrade_agents hh
        rw [← h.1, hag]
        by_cases hji : j = i
        · subst hji; rw [hd] at hj; cases hj; cases hloc
        · rw [getElem?_setLoc_ne hji]; exact hd
    · cases h
  | upgrade j =>
    simp only [step] at h
    split at h
    · rename_i seen hj
      simp only [Option.some.injEq, Prod.mk.injEq] at h
      rw [← h.1]
      by_cases hji : j = i
      · subst hji; rw [hd] at hj; cases hj
      · rw [getElem?_setLoc_ne hji]; exact hd
    · cases h

/-- **no double release**: once request `i` has been released, no later `release i` (nor conversion
    of `i`) is enabled, whatever happens in between. -/
theorem c07_release_once (P : WParams) (acts : List Act) :
    ∀ (s s' : St) (i : Nat) (r : Word), s.agents[i]? = some (.done r) → run P s acts = some s' →
      ∀ nv, step P s' (.release i nv) = none ∧ step P s' (.downgrade i nv) = none ∧
            step P s' (.upgrade i) = none := by
  induction acts with
  | nil =>
    intro s s' i r hd hr nv
    simp only [run, Option.some.injEq] at hr
    subst hr
    simp [step, hd, releaseStep, downgradeStep]
  | cons a as ih =>
    intro s s' i r hd hr nv
    simp only [run] at hr
    cases hst : step P s a with
    | none => rw [hst] at hr; cases hr
    | some x =>
      obtain ⟨s1, e⟩ := x
      rw [hst] at hr
      exact ih s1 s' i r (c07_done_absorbing P s s1 a e i r hd hst) hr nv


/-! ## Guard classes (client layer): every program, every schedule -/

open CppUtil.WClient

/-- **a guard that owns** (`operator bool`, i.e. `dest_ != nullptr` / `has_lock_`) **owns a live grant of its class** on the
    lock it points at — for every state reachable by any schedule of any well-formed client program.  The only
    exception is the quantum in which the guard's old grant has just been released and the guard is about to be
    overwritten (`StaleOk`: its thread is inside that very instruction). -/
theorem c07_client_owner_holds {P : WParams} {vo : Nat → Nat} {c0 c : Client} (hi : Initial c0) (hwf : WF vo c0)
    (hr : ReachableC P c0 c) (v lk a : Nat) (h : own c v = some (lk, a)) :
    (∃ s, agentLoc c lk a = .held (kindOf c v).gmode s) ∨ ((∃ r, agentLoc c lk a = .done r) ∧ StaleOk vo c v) := by
  obtain ⟨ao, hI, _⟩ := reachable_inv hi hwf hr
  exact (hI.varOk v lk a h).2.2

/-- at a quantum boundary of its thread (the thread is blocked on an atomic operation, finished, or not yet started)
    an owning guard always holds its grant -/
theorem c07_client_owner_holds_at_boundary {P : WParams} {vo : Nat → Nat} {c0 c : Client} (hi : Initial c0) (hwf : WF vo c0)
    (hr : ReachableC P c0 c) (v lk a : Nat) (h : own c v = some (lk, a))
    (hb : (getThread c (vo v)).pend ≠ .none ∨ (getThread c (vo v)).finished = true) :
    ∃ s, agentLoc c lk a = .held (kindOf c v).gmode s := by
  rcases c07_client_owner_holds hi hwf hr v lk a h with h1 | ⟨_, h2⟩
  · exact h1
  · rw [StaleOk_iff] at h2
    obtain ⟨_, _, _, h4, h5⟩ := h2
    rcases hb with hb | hb
    · exact absurd h4 hb
    · rw [h5] at hb; cases hb

/-- **exactly one owner**: two guard variables never own the same live grant, and a temporary (the prvalue a
    member function returns) never shares its grant with a variable -/
theorem c07_client_one_owner {P : WParams} {vo : Nat → Nat} {c0 c : Client} (hi : Initial c0) (hwf : WF vo c0)
    (hr : ReachableC P c0 c) :
    (∀ v v' r, own c v = some r → own c v' = some r → isHeld (agentLoc c r.1 r.2) → v = v') ∧
    (∀ t lk a, (getThread c t).tmp.own = some (lk, a) → isHeld (agentLoc c lk a) ∧ ∀ v, own c v ≠ some (lk, a)) := by
  obtain ⟨ao, hI, _⟩ := reachable_inv hi hwf hr
  exact ⟨hI.inj, fun t lk a h => ⟨(hI.tmpOk t lk a h).2.2.1, (hI.tmpOk t lk a h).2.2.2⟩⟩

/-- `OptGuard`s never own a grant (their `operator bool` is about the pointer only) -/
theorem c07_client_optguard_owns_nothing {P : WParams} {vo : Nat → Nat} {c0 c : Client} (hi : Initial c0) (hwf : WF vo c0)
    (hr : ReachableC P c0 c) (v : Nat) (hk : kindOf c v = .Opt) : own c v = none := by
  obtain ⟨ao, hI, _⟩ := reachable_inv hi hwf hr
  exact hI.optNone v hk

/-- **no grant is dropped**: every request that holds a grant is owned by a guard variable, by a temporary, or is
    the request of the call its thread is executing right now -/
theorem c07_client_no_orphan {P : WParams} {vo : Nat → Nat} {c0 c : Client} (hi : Initial c0) (hwf : WF vo c0)
    (hr : ReachableC P c0 c) (lk a : Nat) (hg : (agentLoc c lk a).grant? ≠ none) :
    (∃ v, own c v = some (lk, a)) ∨ (∃ t, (getThread c t).tmp.own = some (lk, a)) ∨
    (∃ t, (getThread c t).finished = false ∧ (getThread c t).phase = 1 ∧ (getThread c t).ag = a) := by
  obtain ⟨ao, hI, _⟩ := reachable_inv hi hwf hr
  rcases hI.noOrphan lk a (lk_lt_of_grant hg) hg with h | h | ⟨t, h⟩
  · exact Or.inl h
  · exact Or.inr (Or.inl h)
  · obtain ⟨_, h1, h2, h3, _⟩ := h
    exact Or.inr (Or.inr ⟨t, h1, h2, h3⟩)

/-- **released exactly once, part 1 — nothing is left**: when every thread has finished and every guard variable
    has been destroyed (owns nothing), no request holds a grant any more -/
theorem c07_client_quiescent {P : WParams} {vo : Nat → Nat} {c0 c : Client} (hi : Initial c0) (hwf : WF vo c0)
    (hr : ReachableC P c0 c) (hfin : ∀ t, t < c.threads.size → (getThread c t).finished = true)
    (hvars : ∀ v, own c v = none) (lk a : Nat) : (agentLoc c lk a).grant? = none := by
  obtain ⟨ao, hI, _⟩ := reachable_inv hi hwf hr
  cases hg : (agentLoc c lk a).grant? with
  | none => rfl
  | some m =>
    exfalso
    have hg' : (agentLoc c lk a).grant? ≠ none := by rw [hg]; simp
    rcases hI.noOrphan lk a (lk_lt_of_grant hg') hg' with ⟨v, h⟩ | ⟨t, h⟩ | ⟨t, h⟩
    · rw [hvars] at h; cases h
    · by_cases ht : t < c.threads.size
      · have := hI.thr t ht
        simp only [TOk, hfin t ht, if_true] at this
        rw [this.1] at h; cases h
      · have : getThread c t = {} := by
          simp [getThread, Array.getD_eq_getD_getElem?, Array.getElem?_eq_none (Nat.le_of_not_lt ht)]
        rw [this] at h; cases h
    · obtain ⟨hpc, h1, _⟩ := h
      by_cases ht : t < c.threads.size
      · rw [hfin t ht] at h1; cases h1
      · have : getThread c t = {} := by
          simp [getThread, Array.getD_eq_getD_getElem?, Array.getElem?_eq_none (Nat.le_of_not_lt ht)]
        rw [this] at hpc; simp at hpc

/-- **released exactly once, part 2 — never twice**: whenever a guard class is about to release a grant (destructor,
    move assignment over an owning guard: the thread is blocked on `Unlock*`), the request still holds that grant, so
    the release is enabled in the lock model; together with `c07_release_once` no grant is ever released twice -/
theorem c07_client_release_enabled {P : WParams} {vo : Nat → Nat} {c0 c : Client} (hi : Initial c0) (hwf : WF vo c0)
    (hr : ReachableC P c0 c) (t lk a : Nat) (nv : BitVec 32) (ht : t < c.threads.size)
    (hf : (getThread c t).finished = false) (hp : (getThread c t).pend = .rel lk a nv) :
    isHeld (agentLoc c lk a) ∧ (WLock.step P (lockSt c lk) (.release a nv)).isSome = true := by
  obtain ⟨ao, hI, hwf'⟩ := reachable_inv hi hwf hr
  have htok := hI.thr t ht
  simp only [TOk, hf, hp, reduceCtorEq, if_false, Bool.false_eq_true] at htok
  split at htok
  · obtain ⟨_, _, _, hheldV, _⟩ := stage_rel_elim htok
    obtain ⟨_, halV⟩ := viewOf_al_ne_idle (isHeld_ne_idle hheldV)
    rw [halV] at hheldV
    refine ⟨hheldV, ?_⟩
    obtain ⟨m, s, hms⟩ := hheldV
    rw [c07_release_enabled_iff]
    have := agentLoc_some (c := c) (lk := lk) (a := a) (by rw [hms]; simp)
    exact ⟨m, s, by rw [this, hms]⟩
  · obtain ⟨_, h2⟩ := htok; cases h2

/-- **every operation the guard classes attempt is applicable**: a thread that has not finished and waits on a pending
    operation (an atomic step inside a call, the release of an overwritten / destroyed guard, the downgrade store, a
    payload access) can always take its quantum — the guard bookkeeping never asks the lock for a step on a request that
    is not in the state the step needs (released twice, converted after being consumed, …). -/
theorem c07_client_step_enabled {P : WParams} {vo : Nat → Nat} {c0 c : Client} (hi : Initial c0) (hwf : WF vo c0)
    (hr : ReachableC P c0 c) (t : Nat) (ht : t < c.threads.size) (hf : (getThread c t).finished = false)
    (hp : (getThread c t).pend ≠ .none) : (stepThread P c t).isSome = true := by
  obtain ⟨ao, hI, hwf'⟩ := reachable_inv hi hwf hr
  have htok := hI.thr t ht
  simp only [stepThread, hf, Bool.false_eq_true, if_false]
  cases hpend : (getThread c t).pend with
  | none => exact absurd hpend hp
  | start => simp
  | payR0 _ => simp
  | payR1 _ => simp
  | payW0 _ _ => simp
  | payW1 _ _ => simp
  | atom lk a =>
    simp only [TOk, hf, hpend, reduceCtorEq, if_false, Bool.false_eq_true] at htok
    split at htok
    · simp only [Stage] at htok
      obtain ⟨_, _, hlkeq, haeq, ⟨k, _, hca⟩, _⟩ := htok
      obtain ⟨_, _, h3, _⟩ := CallAg.facts hca (by intro l hl hh; rw [hh] at hl; cases hl)
      have hvth : (viewOf vo ao c t).th = getThread c t := rfl
      rw [hvth] at hlkeq haeq
      rw [← hlkeq, ← haeq] at h3
      have hne : agentLoc c lk a ≠ .idle := by intro hh; rw [hh] at h3; cases h3
      obtain ⟨s', e, hat⟩ := atomStep_isSome (P := P) (s := lockSt c lk) (i := a) h3
      simp only [WLock.step, agentLoc_some hne, hat, Option.map_some]
      split <;> simp
    · obtain ⟨_, h2⟩ := htok; cases h2
  | rel lk a nv =>
    obtain ⟨_, hen⟩ := c07_client_release_enabled hi hwf hr t lk a nv ht hf hpend
    cases hst : WLock.step P (lockSt c lk) (.release a nv) with
    | none => rw [hst] at hen; cases hen
    | some r =>
      obtain ⟨s', e⟩ := r
      simp only [WLock.step] at hst
      cases hag : (lockSt c lk).agents[a]? with
      | none => simp [hag] at hst
      | some loc =>
        simp only [hag] at hst
        cases hrs : releaseStep P (lockSt c lk) a loc nv with
        | none => simp [hrs] at hst
        | some r2 => simp [WLock.step, hag, hrs]
  | dng lk a nv =>
    simp only [TOk, hf, hpend, reduceCtorEq, if_false, Bool.false_eq_true] at htok
    split at htok
    · simp only [Stage] at htok
      obtain ⟨_, _, hlkeq, haeq, _, _, hca⟩ := htok
      obtain ⟨_, _, ⟨s0, h3⟩, _⟩ := CallAg.facts hca (by rintro l ⟨s, rfl⟩; simp)
      have hvth : (viewOf vo ao c t).th = getThread c t := rfl
      rw [hvth] at hlkeq haeq
      rw [← hlkeq, ← haeq] at h3
      have hne : agentLoc c lk a ≠ .idle := by rw [h3]; simp
      have hsome := agentLoc_some hne
      rw [h3] at hsome
      simp [WLock.step, hsome, downgradeStep]
    · obtain ⟨_, h2⟩ := htok; cases h2

/-- non-vacuity: `mkClient` states are `Initial`; a two-thread program over the guard classes (LockSIX, UpgradeToX,
    operator bool, destructor / LockX, destructor) passes the executable premise `wfB`, which implies `WF` -/
example : Initial (mkClient 1 #[.S, .X] #[#[.lock .S 0 0, .dtor 0], #[.lock .X 1 0, .dtor 1]]) :=
  mkClient_initial _ _ _

def exClient : Client :=
  { locks := #[WLock.init], vars := #[{}, {}, {}], kinds := #[.SIX, .X, .X], ghost := #[none, none, none],
    threads := #[{ prog := #[.lock .SIX 0 0, .upg 1 0, .bool 1, .dtor 1] }, { prog := #[.lock .X 2 0, .dtor 2] }],
    pay := #[(0, 0)] }

example : WF (voOf exClient) exClient := wfB_sound (by decide)

end CppUtil.Props
