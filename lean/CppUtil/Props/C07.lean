/-
  C07 — guards own exactly one grant and release it exactly once.
  Core part (word locks): a grant can be released only while it is held, and a released request is
  finished for good, so no execution releases a grant twice; the guard classes' ownership rules
  (who owns which grant after construction / move / conversion / destruction) are the client model
  `Model/WClient.lean`, compared instruction by instruction with the real guard classes.
-/
import CppUtil.Props.C01
import CppUtil.Proofs.WLockMore

namespace CppUtil.Props
open CppUtil CppUtil.WLock

/-- `release` is enabled exactly on a held grant -/
theorem c07_release_enabled_iff (P : WParams) (s : St) (i : Nat) (nv : BitVec 32) :
    (step P s (.release i nv)).isSome = true ↔ ∃ m seen, s.agents[i]? = some (.held m seen) := by
  simp only [step]
  cases h : s.agents[i]? with
  | none => simp
  | some loc =>
    cases loc <;> simp [releaseStep]
    rename_i m seen
    cases m <;> simp

/-- after its release the request is `done` -/
theorem c07_release_finishes (P : WParams) (s s' : St) (i : Nat) (nv : BitVec 32) (e : Option Ev)
    (h : step P s (.release i nv) = some (s', e)) : ∃ r, s'.agents[i]? = some (.done r) := by
  simp only [step] at h
  split at h
  · rename_i loc hi
    cases hh : releaseStep P s i loc nv with
    | none => rw [hh] at h; simp at h
    | some r =>
      rw [hh] at h
      simp only [Option.map_some, Option.some.injEq, Prod.mk.injEq] at h
      obtain ⟨s1, e1⟩ := r
      simp only at h
      rw [← h.1, release_agents hh]
      exact ⟨0, getElem?_setLoc_self hi⟩
  · cases h

/-- `done` is absorbing: no transition changes a finished request -/
theorem c07_done_absorbing (P : WParams) (s s' : St) (a : Act) (e : Option Ev) (i : Nat) (r : Word)
    (hd : s.agents[i]? = some (.done r)) (h : step P s a = some (s', e)) :
    s'.agents[i]? = some (.done r) := by
  cases a with
  | spawn =>
    simp only [step, Option.some.injEq, Prod.mk.injEq] at h
    rw [← h.1]
    show (s.agents ++ [Loc.idle])[i]? = _
    rw [List.getElem?_append_left (getElem?_lt hd)]; exact hd
  | start j rq =>
    simp only [step] at h
    split at h
    · rename_i hj
      simp only [Option.some.injEq, Prod.mk.injEq] at h
      rw [← h.1]
      by_cases hji : j = i
      · subst hji; rw [hd] at hj; cases hj
      · rw [getElem?_setLoc_ne hji]; exact hd
    · cases h
  | atom j ov sp =>
    simp only [step] at h
    split at h
    · rename_i loc hj
      cases hh : atomStep P s j loc ov sp with
      | none => rw [hh] at h; simp at h
      | some x =>
        rw [hh] at h
        simp only [Option.map_some, Option.some.injEq, Prod.mk.injEq] at h
        obtain ⟨s1, e1⟩ := x
        simp only at h
        rw [← h.1]
        by_cases hji : j = i
        · subst hji; rw [hd] at hj; cases hj; simp [atomStep] at hh
        · rw [atom_other hh hji]; exact hd
    · cases h
  | release j nv =>
    simp only [step] at h
    split at h
    · rename_i loc hj
      cases hh : releaseStep P s j loc nv with
      | none => rw [hh] at h; simp at h
      | some x =>
        rw [hh] at h
        simp only [Option.map_some, Option.some.injEq, Prod.mk.injEq] at h
        obtain ⟨s1, e1⟩ := x
        simp only at h
        rw [← h.1, release_agents hh]
        by_cases hji : j = i
        · subst hji; rw [hd] at hj; cases hj; simp [releaseStep] at hh
        · rw [getElem?_setLoc_ne hji]; exact hd
    · cases h
  | downgrade j nv =>
    simp only [step] at h
    split at h
    · rename_i loc hj
      cases hh : downgradeStep P s j loc nv with
      | none => rw [hh] at h; simp at h
      | some x =>
        rw [hh] at h
        simp only [Option.map_some, Option.some.injEq, Prod.mk.injEq] at h
        obtain ⟨s1, e1⟩ := x
        simp only at h
        obtain ⟨seen, hloc, hag⟩ := downgrade_agents hh
        rw [← h.1, hag]
        by_cases hji : j = i
        · subst hji; rw [hd] at hj; cases hj; cases hloc
        · rw [getElem?_setLoc_ne hji]; exact hd
    · cases h
  | upgrade j =>
    simp only [step] at h
    split at h
    · rename_i seen hj
      simp only [Option.some.injEq, Prod.mk.injEq] at h
      rw [← h.1]
      by_cases hji : j = i
      · subst hji; rw [hd] at hj; cases hj
      · rw [getElem?_setLoc_ne hji]; exact hd
    · cases h

/-- **no double release**: once request `i` has been released, no later `release i` (nor conversion
    of `i`) is enabled, whatever happens in between. -/
theorem c07_release_once (P : WParams) (acts : List Act) :
    ∀ (s s' : St) (i : Nat) (r : Word), s.agents[i]? = some (.done r) → run P s acts = some s' →
      ∀ nv, step P s' (.release i nv) = none ∧ step P s' (.downgrade i nv) = none ∧
            step P s' (.upgrade i) = none := by
  induction acts with
  | nil =>
    intro s s' i r hd hr nv
    simp only [run, Option.some.injEq] at hr
    subst hr
    simp [step, hd, releaseStep, downgradeStep]
  | cons a as ih =>
    intro s s' i r hd hr nv
    simp only [run] at hr
    cases hst : step P s a with
    | none => rw [hst] at hr; cases hr
    | some x =>
      obtain ⟨s1, e⟩ := x
      rw [hst] at hr
      exact ih s1 s' i r (c07_done_absorbing P s s1 a e i r hd hst) hr nv

end CppUtil.Props
