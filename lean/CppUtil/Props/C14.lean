/-
  C14 — exited threads give their IDs back: ID capacity is never lost.
-/
import CppUtil.Proofs.IdMgrInv
import CppUtil.Proofs.IdMgrLive
import CppUtil.Gen.Thread

namespace CppUtil.Props
open CppUtil CppUtil.IdMgr

/-- tie G: the HeartBeater accessors have the shape the model assumes — in particular a thread "has an ID" exactly when
    its ID pointer is non-null (so it claims a slot once per incarnation, whatever references a client holds) -/
theorem c14_accessors_as_modelled : Gen.heartBeaterAccessorsAsModelled = true := by decide

/-- every reservation flag that is set belongs to exactly one thread between its claim and its release
    step; in particular, once all threads have exited, every flag is clear -/
theorem c14_all_exited_all_free (n : Nat) (hn : 0 < n) (ef : Bool) (nthreads : Nat) (acts : List Act) (s : St)
    (h : run n ef (mkSt n nthreads) acts = some s)
    (hd : ∀ l ∈ s.threads, l = .dead ∨ l = .fresh) (i : Nat) (hi : i < n) : s.slots.getD i false = false := by
  have hI := inv_run hn (inv_init n nthreads ef) h
  have hz : resCount ef s i = 0 := by
    unfold resCount
    apply List.countP_eq_zero.mpr
    intro l hl
    rcases hd l hl with rfl | rfl <;> simp [reserves]
  have := hI.cnt i hi
  cases hb : s.slots.getD i false with
  | false => rfl
  | true => rw [hb, hz] at this; simp at this

/-- the number of set flags equals the number of threads holding a reservation: a flag is never
    left set by a thread that has finished its exit path -/
theorem c14_flag_has_holder (n : Nat) (hn : 0 < n) (ef : Bool) (nthreads : Nat) (acts : List Act) (s : St)
    (h : run n ef (mkSt n nthreads) acts = some s) (i : Nat) (hi : i < n) (hset : s.slots.getD i false = true) :
    ∃ t : Nat, ∃ l : TLoc, s.threads[t]? = some l ∧ reserves ef l = some i := by
  have hI := inv_run hn (inv_init n nthreads ef) h
  have := hI.cnt i hi
  rw [hset] at this
  have hpos : 0 < resCount ef s i := by simp at this; omega
  unfold resCount at hpos
  obtain ⟨l, hl, hp⟩ := List.countP_pos_iff.mp hpos
  obtain ⟨t, ht, htl⟩ := List.getElem_of_mem hl
  exact ⟨t, l, by rw [List.getElem?_eq_getElem ht, htl], by simpa using hp⟩

/-- one probe round of a claimer running alone: from slot `id`, `j` slots ahead is free -/
theorem solo_claim (n : Nat) (hn : 0 < n) (ef : Bool) : ∀ (j : Nat) (s : St) (t id : Nat),
    Inv n ef s → s.threads[t]? = some (.pLoad id) → id < n →
    (∀ k, k < j → s.slots.getD ((id + k) % n) false = true) → s.slots.getD ((id + j) % n) false = false →
    ∃ s', run n ef s (List.replicate (j + 2) (.atom t)) = some s' ∧ s'.threads[t]? = some (.owner ((id + j) % n)) := by
  intro j
  induction j with
  | zero =>
    intro s t id hI ht hid _ hfree
    have hmod : (id + 0) % n = id := by simp [Nat.mod_eq_of_lt hid]
    rw [hmod] at hfree ⊢
    have hidl : id < s.slots.length := by rw [hI.len]; exact hid
    have e1 : step n ef s (.atom t) = some (setT s t (.pXchg id),
        some { op := .load, loc := s!"I{id}", mo := .rlx, rd := 0, wr := 0 }) := by
      simp only [step, ht, hfree, Bool.false_eq_true, ↓reduceIte]
    have ht2 : (setT s t (.pXchg id)).threads[t]? = some (.pXchg id) := by
      simp only [setT]; exact List.getElem?_set_self (getElem?_lt' ht)
    refine ⟨{ setT { (setT s t (.pXchg id)) with slots := s.slots.set id true } t (.owner id) with
                alive := s.alive.set t true }, ?_, ?_⟩
    · show run n ef s [.atom t, .atom t] = _
      simp only [run, e1]
      simp only [step, ht2]
      have : (setT s t (TLoc.pXchg id)).slots.getD id false = false := hfree
      simp only [this, Bool.false_eq_true, ↓reduceIte]
      rfl
    · show (List.set _ t (TLoc.owner id))[t]? = _
      apply List.getElem?_set_self
      simp [setT]; exact getElem?_lt' ht
  | succ j ih =>
    intro s t id hI ht hid hbusy hfree
    have h0 : s.slots.getD id false = true := by
      have := hbusy 0 (by omega); simpa [Nat.mod_eq_of_lt hid] using this
    have e1 : step n ef s (.atom t) = some (setT s t (.pLoad (nextId n id)),
        some { op := .load, loc := s!"I{id}", mo := .rlx, rd := 1, wr := 1 }) := by
      simp only [step, ht, h0, ↓reduceIte]
    have hI' := inv_step hn hI e1
    have ht2 : (setT s t (.pLoad (nextId n id))).threads[t]? = some (.pLoad (nextId n id)) := by
      simp only [setT]; exact List.getElem?_set_self (getElem?_lt' ht)
    have hnext : nextId n id = (id + 1) % n := by
      unfold nextId
      split
      · rename_i hge
        have : id + 1 = n := by omega
        rw [this]; simp
      · rename_i hlt
        rw [Nat.mod_eq_of_lt (by omega)]
    have hshift : ∀ k, (nextId n id + k) % n = (id + (k + 1)) % n := by
      intro k; rw [hnext, Nat.add_mod, Nat.mod_mod, ← Nat.add_mod]; congr 1; omega
    obtain ⟨s', hr, ho⟩ := ih (setT s t (.pLoad (nextId n id))) t (nextId n id) hI' ht2 (nextId_lt hn)
      (by intro k hk; rw [hshift k]; exact hbusy (k + 1) (by omega))
      (by rw [hshift j]; exact hfree)
    refine ⟨s', ?_, ?_⟩
    · show run n ef s (.atom t :: List.replicate (j + 2) (.atom t)) = _
      simp only [run, e1]; exact hr
    · rw [hshift j] at ho; exact ho

/-- **a free ID is obtained**: if some reservation flag is clear, a probing thread that runs alone
    becomes owner within `n + 1` further steps of the claim loop (at most one `load` per slot on the
    way plus the final `exchange`) — GetThreadID returns as soon as some holder has exited. -/
theorem c14_solo_claim_succeeds (n : Nat) (hn : 0 < n) (ef : Bool) (nthreads : Nat) (acts : List Act) (s : St)
    (h : run n ef (mkSt n nthreads) acts = some s) (t id : Nat) (ht : s.threads[t]? = some (.pLoad id))
    (i : Nat) (hi : i < n) (hfree : s.slots.getD i false = false) :
    ∃ k s' id', k ≤ n + 1 ∧ run n ef s (List.replicate k (.atom t)) = some s' ∧ s'.threads[t]? = some (.owner id') := by
  have hI := inv_run hn (inv_init n nthreads ef) h
  have hid : id < n := hI.pos _ (List.mem_of_getElem? ht) id rfl
  -- the first free slot at or after `id` (cyclically)
  have hex : ∃ j, j < n ∧ s.slots.getD ((id + j) % n) false = false := by
    refine ⟨(i + n - id) % n, Nat.mod_lt _ hn, ?_⟩
    have : (id + (i + n - id) % n) % n = i := by
      rw [Nat.add_mod, Nat.mod_mod, ← Nat.add_mod]
      have : id + (i + n - id) = i + n := by omega
      rw [this, Nat.add_mod_right, Nat.mod_eq_of_lt hi]
    rw [this]; exact hfree
  -- take the least such j
  have hleast : ∃ j, j < n ∧ s.slots.getD ((id + j) % n) false = false ∧
      ∀ k, k < j → s.slots.getD ((id + k) % n) false = true := by
    obtain ⟨j0, hj0, hf0⟩ := hex
    induction j0 using Nat.strongRecOn with
    | _ j0 ih =>
      by_cases hall : ∀ k, k < j0 → s.slots.getD ((id + k) % n) false = true
      · exact ⟨j0, hj0, hf0, hall⟩
      · have : ∃ k, k < j0 ∧ s.slots.getD ((id + k) % n) false = false := by
          apply Classical.byContradiction
          intro hc
          apply hall
          intro k hk
          cases hb : s.slots.getD ((id + k) % n) false with
          | true => rfl
          | false => exact absurd ⟨k, hk, hb⟩ hc
        obtain ⟨k, hk, hfk⟩ := this
        exact ih k hk (by omega) hfk
  obtain ⟨j, hj, hfj, hbusy⟩ := hleast
  obtain ⟨s', hr, ho⟩ := solo_claim n hn ef j s t id hI ht hid hbusy hfj
  exact ⟨j + 2, s', _, by omega, hr, ho⟩

/-- exit gives the ID back: after a thread has completed its exit path its slot is clear unless somebody
    else has claimed it meanwhile — stated as: the release step itself clears the flag. -/
theorem c14_release_clears (n : Nat) (s s' : St) (t id : Nat) (e : Option Ev)
    (ht : s.threads[t]? = some (.exit2 id)) (hid : id < s.slots.length)
    (h : step n true s (.atom t) = some (s', e)) : s'.slots.getD id false = false ∧ s'.threads[t]? = some .dead := by
  simp only [step, ht] at h
  simp only [ite_true, Option.some.injEq, Prod.mk.injEq] at h
  rw [← h.1]
  refine ⟨?_, ?_⟩
  · show (s.slots.set id false).getD id false = false
    exact getD_set_self hid
  · show (s.threads.set t .dead)[t]? = _
    exact List.getElem?_set_self (getElem?_lt' ht)

/-- **every call to GetThreadID returns — bounded waiting for every interleaving.**  In any reachable state in which
    nobody is inside the exit path and there are at least as many free IDs as threads inside the claim loop, a thread
    `t` of the claim loop owns an ID after at most `claimers * (n + 2) + n + 2` of its own atomic steps, whatever steps the
    other threads take in between (`sched` is any sequence of thread choices; a thread with nothing to do stays put).
    Under a fair scheduler every thread gets that many steps. -/
theorem c14_claim_returns (n : Nat) (hn : 0 < n) (ef : Bool) (nthreads : Nat) (acts : List Act) (s : St)
    (h : run n ef (mkSt n nthreads) acts = some s) (hne : NoExit s) (hroom : claimers s ≤ freeCnt s)
    (t : Nat) (l : TLoc) (ht : s.threads[t]? = some l) (hc : isClaimer l = true)
    (sched : List Nat) (hcount : claimers s * (n + 2) + n + 1 < sched.count t) :
    ∃ id, (execA n ef s sched).threads[t]? = some (.owner id) := by
  have hI := inv_run hn (inv_init n nthreads ef) h
  have hL : Live n ef s := ⟨hI, hne, hroom⟩
  exact claim_within hn t sched s _ hL (pot_init hn hL ht hc) hcount

/-- `stepA` is the model's step where the thread has one: `execA` runs are runs of the model -/
theorem c14_stepA_is_step (n : Nat) (ef : Bool) (s s' : St) (t : Nat) (e : Option Ev)
    (h : step n ef s (.atom t) = some (s', e)) : stepA n ef s t = s' := by
  unfold stepA; rw [h]

/-- non-vacuity: capacity 2, three threads; thread 0 owns ID 1, threads 1 and 2 race for the one free ID... that is one
    claimer too many for `hroom`; with thread 2 not started the hypotheses hold and thread 1 gets ID 0 -/
theorem c14_claim_returns_nonvacuous :
    (run 2 true (mkSt 2 3) [.begin 0 0, .atom 0, .atom 0, .begin 1 0]).map
      (fun s => (decide (claimers s ≤ freeCnt s), claimers s, freeCnt s,
                 (execA 2 true s [1, 1, 1, 1]).threads[1]?)) =
    some (true, 1, 1, some (.owner 0)) := by
  decide +kernel

end CppUtil.Props
