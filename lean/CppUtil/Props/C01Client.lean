/-
  C01 at the level of the guard classes: two guards that own grants on the same PessimisticLock / OptimisticLock
  are of compatible classes — in every state reachable by any schedule of any well-formed client program.
  Combines the guard algebra (`Props/C07.lean`: an owning guard holds a grant of its class; no two guards share
  one) with the lock theorem (`c01_pess / c01_opt`) through `reachable_locks`: every lock object of a reachable
  client state is a reachable state of the core model, because the client changes lock words only through
  `WLock.step`.
-/
import CppUtil.Props.C01
import CppUtil.Props.C07
import CppUtil.Proofs.WClientReach

namespace CppUtil.Props
open CppUtil CppUtil.WLock CppUtil.WClient

/-- **guards of conflicting classes never own grants on the same PessimisticLock at the same time** -/
theorem c01_client_guards_compatible_pess (r : Nat) {vo : Nat → Nat} {c0 c : Client} (hi : Initial c0) (hwf : WF vo c0)
    (hr : ReachableC (Gen.pess r) c0 c) (v v' lk a a' : Nat) (hne : v ≠ v')
    (h : own c v = some (lk, a)) (h' : own c v' = some (lk, a'))
    (hb : (getThread c (vo v)).pend ≠ .none ∨ (getThread c (vo v)).finished = true)
    (hb' : (getThread c (vo v')).pend ≠ .none ∨ (getThread c (vo v')).finished = true)
    (hcap : (lockSt c lk).agents.length < 2 ^ 62) :
    conflict (kindOf c v).gmode (kindOf c v').gmode = false := by
  obtain ⟨s1, hs1⟩ := c07_client_owner_holds_at_boundary hi hwf hr v lk a h hb
  obtain ⟨s2, hs2⟩ := c07_client_owner_holds_at_boundary hi hwf hr v' lk a' h' hb'
  have haa : a ≠ a' := by
    rintro rfl
    exact hne ((c07_client_one_owner hi hwf hr).1 v v' (lk, a) h h' ⟨_, _, hs1⟩)
  obtain ⟨acts, hrun⟩ := reachable_locks (P := Gen.pess r) hi hr lk
  have g1 := agentLoc_some (c := c) (lk := lk) (a := a) (by rw [hs1]; simp)
  have g2 := agentLoc_some (c := c) (lk := lk) (a := a') (by rw [hs2]; simp)
  exact c01_pess r acts (lockSt c lk) hrun hcap a a' _ _ haa
    ⟨_, g1, by rw [hs1]; rfl⟩ ⟨_, g2, by rw [hs2]; rfl⟩

/-- the same for OptimisticLock (guards obtained through `TryLock*`, conversions and `PrepareRead`'s fallback included) -/
theorem c01_client_guards_compatible_opt (r : Nat) {vo : Nat → Nat} {c0 c : Client} (hi : Initial c0) (hwf : WF vo c0)
    (hr : ReachableC (Gen.opt r) c0 c) (v v' lk a a' : Nat) (hne : v ≠ v')
    (h : own c v = some (lk, a)) (h' : own c v' = some (lk, a'))
    (hb : (getThread c (vo v)).pend ≠ .none ∨ (getThread c (vo v)).finished = true)
    (hb' : (getThread c (vo v')).pend ≠ .none ∨ (getThread c (vo v')).finished = true)
    (hcap : (lockSt c lk).agents.length < 2 ^ 30) :
    conflict (kindOf c v).gmode (kindOf c v').gmode = false := by
  obtain ⟨s1, hs1⟩ := c07_client_owner_holds_at_boundary hi hwf hr v lk a h hb
  obtain ⟨s2, hs2⟩ := c07_client_owner_holds_at_boundary hi hwf hr v' lk a' h' hb'
  have haa : a ≠ a' := by
    rintro rfl
    exact hne ((c07_client_one_owner hi hwf hr).1 v v' (lk, a) h h' ⟨_, _, hs1⟩)
  obtain ⟨acts, hrun⟩ := reachable_locks (P := Gen.opt r) hi hr lk
  have g1 := agentLoc_some (c := c) (lk := lk) (a := a) (by rw [hs1]; simp)
  have g2 := agentLoc_some (c := c) (lk := lk) (a := a') (by rw [hs2]; simp)
  exact c01_opt r acts (lockSt c lk) hrun hcap a a' _ _ haa
    ⟨_, g1, by rw [hs1]; rfl⟩ ⟨_, g2, by rw [hs2]; rfl⟩

end CppUtil.Props
