/-
  C08 — conflicting critical sections are ordered by happens-before.
  The synchronises-with edges are derived from the memory orders written in the source (regenerated
  into `Gen.pessOrders` / `Gen.optOrders` on every run), with the C++20 rules for release sequences.
  Scope: executions in which atomic reads return the newest value (read-modify-write operations always
  do; the relaxed pre-loads that only feed a CAS are irrelevant: the CAS re-reads).  MCSLock: the order
  table is checked (`c08_mcs_orders`) and the happens-before monitor runs on every implementation
  trace of all three locks; the MCS protocol theorem is not mechanised (DESIGN.md §5.3).
-/
import CppUtil.Proofs.WLockHB
import CppUtil.Props.WSpecs
import CppUtil.Gen.Mcs

namespace CppUtil.Props
open CppUtil CppUtil.WLock

/-- tie G: the orders of the current source are adequate (PessimisticLock) -/
theorem c08_pess_orders (r : Nat) : Adequate (Gen.pess r).ord where
  relS := by rfl
  relSIX := by rfl
  relX := by rfl
  dng := by rfl
  lockCas := by intro m; cases m <;> rfl
  upgCas := by rfl
  tryCas := by intro m; cases m <;> rfl
  prepCas := by rfl

/-- tie G: the orders of the current source are adequate (OptimisticLock) -/
theorem c08_opt_orders (r : Nat) : Adequate (Gen.opt r).ord where
  relS := by rfl
  relSIX := by rfl
  relX := by rfl
  dng := by rfl
  lockCas := by intro m; cases m <;> rfl
  upgCas := by rfl
  tryCas := by intro m; cases m <;> rfl
  prepCas := by rfl

/-- **C08, PessimisticLock.**  In every execution (any number of requests, any interleaving), whenever a
    step gives agent `i` a grant of mode `m` that it did not hold before, the clock of `i` after the step
    dominates the clock at which every earlier critical section on the lock ended. -/
theorem c08_pess (r : Nat) (acts : List Act) (s s' : HSt) (a : Act) (i : Nat) (l l' : Loc) (m : Mode)
    (hrun : hrun (Gen.pess r) hinit acts = some s) (hcap : s.base.agents.length < 2 ^ 62)
    (hst : hstep (Gen.pess r) s a = some s') (hag : agentOf a = some i)
    (hl : s.base.agents[i]? = some l) (hl' : s'.base.agents[i]? = some l')
    (hm : l'.grant? = some m) (hne : l.grant? ≠ some m) :
    ∀ E ∈ s.ended, VC.le E (s'.C i) := by
  have hI := hinv_run (pess_specs r) (c08_pess_orders r) (hinv_init (pess_specs r)) hrun
    (by simpa [pessDecoder] using hcap)
  exact hb_at_grant (c08_pess_orders r) hI hst hag hl hl' hm hne

/-- **C08, OptimisticLock** (includes TryLock* grants and PrepareRead's shared fallback). -/
theorem c08_opt (r : Nat) (acts : List Act) (s s' : HSt) (a : Act) (i : Nat) (l l' : Loc) (m : Mode)
    (hrun : hrun (Gen.opt r) hinit acts = some s) (hcap : s.base.agents.length < 2 ^ 30)
    (hst : hstep (Gen.opt r) s a = some s') (hag : agentOf a = some i)
    (hl : s.base.agents[i]? = some l) (hl' : s'.base.agents[i]? = some l')
    (hm : l'.grant? = some m) (hne : l.grant? ≠ some m) :
    ∀ E ∈ s.ended, VC.le E (s'.C i) := by
  have hI := hinv_run (opt_specs r) (c08_opt_orders r) (hinv_init (opt_specs r)) hrun
    (by simpa [optDecoder] using hcap)
  exact hb_at_grant (c08_opt_orders r) hI hst hag hl hl' hm hne

/-- clocks only grow and ended sections stay recorded: "begun later" sections see every earlier end -/
theorem c08_monotone (P : WParams) (s s' : HSt) (a : Act) (h : hstep P s a = some s') :
    (∀ j, VC.le (s.C j) (s'.C j)) ∧ (∀ E ∈ s.ended, E ∈ s'.ended) := hstep_mono h

/-- tie G, MCSLock: releasing operations carry release, granting / waiting operations carry acquire -/
theorem c08_mcs_orders :
    (Gen.mcsOrders "unlockS.casDecS").isRel = true ∧ (Gen.mcsOrders "unlockS.casNullS").isRel = true ∧
    (Gen.mcsOrders "unlockS.handoff").isRel = true ∧
    (Gen.mcsOrders "unlockSIX.casDecS").isRel = true ∧ (Gen.mcsOrders "unlockSIX.casNullS").isRel = true ∧
    (Gen.mcsOrders "unlockSIX.handoff").isRel = true ∧
    (Gen.mcsOrders "unlockX.casDecS").isRel = true ∧ (Gen.mcsOrders "unlockX.casNullS").isRel = true ∧
    (Gen.mcsOrders "unlockX.handoff").isRel = true ∧
    (Gen.mcsOrders "dng.casS").isRel = true ∧ (Gen.mcsOrders "dng.handoff").isRel = true ∧
    (Gen.mcsOrders "lockS.casJoinS").isAcq = true ∧ (Gen.mcsOrders "lockS.casNewS").isAcq = true ∧
    (Gen.mcsOrders "lockS.spinLock").isAcq = true ∧ (Gen.mcsOrders "lockS.spinNode").isAcq = true ∧
    (Gen.mcsOrders "lockSIX.xchg").isAcq = true ∧ (Gen.mcsOrders "lockSIX.spin").isAcq = true ∧
    (Gen.mcsOrders "lockX.xchg").isAcq = true ∧ (Gen.mcsOrders "lockX.spin").isAcq = true ∧
    (Gen.mcsOrders "lockSIX.link").isRel = true ∧ (Gen.mcsOrders "lockX.link").isRel = true ∧
    (Gen.mcsOrders "upg.load").isAcq = true := by decide

/-- non-vacuity: a reader section ends (agent 0, after its 3rd atomic step), a writer acquires afterwards
    (agent 1): the recorded end clock has component 3 for agent 0 and the writer's clock dominates it -/
def demoHB : List Act :=
  [.spawn, .spawn, .start 0 (.lock .S), .atom 0 none false, .atom 0 none false, .release 0 0,
   .start 1 (.lock .X), .atom 1 none false, .atom 1 none false]

example : ((hrun (Gen.opt 1) hinit demoHB).map fun s => (s.ended.map (· 0), s.C 1 0, s.C 1 1, s.base.agents[1]?))
    = some ([3], 3, 2, some (.held .X 0)) := by rfl

end CppUtil.Props
