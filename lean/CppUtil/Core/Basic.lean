/-
  Core vocabulary shared by every component model: 64-bit words, memory orders,
  lock modes and the documented compatibility matrix, atomic-operation events.
  No Mathlib.
-/
namespace CppUtil

abbrev Word := BitVec 64

/-- `std::memory_order` values that occur in the repository. -/
inductive MO where
  | rlx | acq | rel | acqrel | sc
  deriving DecidableEq, Repr, Inhabited

namespace MO
def toStr : MO → String
  | rlx => "rlx" | acq => "acq" | rel => "rel" | acqrel => "acq_rel" | sc => "sc"
def ofStr? : String → Option MO
  | "rlx" => some rlx | "acq" => some acq | "rel" => some rel
  | "acq_rel" => some acqrel | "sc" => some sc | _ => none
/-- the order includes acquire semantics (for a load / the read part of an RMW) -/
def isAcq : MO → Bool
  | acq => true | acqrel => true | sc => true | _ => false
/-- the order includes release semantics (for a store / the write part of an RMW) -/
def isRel : MO → Bool
  | rel => true | acqrel => true | sc => true | _ => false
end MO

/-- lock modes -/
inductive Mode where
  | S | SIX | X
  deriving DecidableEq, Repr, Inhabited

namespace Mode
def toStr : Mode → String
  | S => "S" | SIX => "SIX" | X => "X"
def ofStr? : String → Option Mode
  | "S" => some S | "SIX" => some SIX | "X" => some X | _ => none
end Mode

/-- The documented matrix (design_doc/lock.md): S-X, SIX-SIX, SIX-X and X-X conflict. -/
def conflict : Mode → Mode → Bool
  | .S, .X => true
  | .X, .S => true
  | .SIX, .SIX => true
  | .SIX, .X => true
  | .X, .SIX => true
  | .X, .X => true
  | _, _ => false

theorem conflict_symm (a b : Mode) : conflict a b = conflict b a := by
  cases a <;> cases b <;> rfl

/-- kinds of atomic operations that are scheduling points -/
inductive OpK where
  | load | store | xchg | cas | fadd | fsub | fxor | fence
  deriving DecidableEq, Repr, Inhabited

namespace OpK
def toStr : OpK → String
  | load => "load" | store => "store" | xchg => "xchg" | cas => "cas"
  | fadd => "fadd" | fsub => "fsub" | fxor => "fxor" | fence => "fence"
end OpK

/-- One executed atomic operation, as both sides of the correspondence print it.
    `loc` is a canonical location name (`L0`, `N3`, ...), `rd` the value read (0 for a pure store/fence),
    `wr` the value written (the old value again when nothing is written), `ok` the success flag of a CAS
    (true for every other operation). -/
structure Ev where
  op : OpK
  loc : String
  mo : MO
  moFail : MO := .rlx
  rd : Word := 0
  wr : Word := 0
  ok : Bool := true
  deriving Repr, Inhabited, DecidableEq

def hex (w : Word) : String := "0x" ++ String.ofList (Nat.toDigits 16 w.toNat)

def Ev.toStr (e : Ev) : String :=
  s!"{e.op.toStr} {e.loc} {e.mo.toStr} {e.moFail.toStr} {hex e.rd} {hex e.wr} {if e.ok then 1 else 0}"

/-- `List.set`-based update helper used by all models. -/
def setAt {α} (l : List α) (i : Nat) (a : α) : List α := l.set i a

end CppUtil
