def hello := "world"
