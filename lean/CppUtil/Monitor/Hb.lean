/-
  Happens-before monitor (C08).  Vector clocks are computed from the *declared* memory orders of the
  executed atomic operations (C++20 [atomics.order]: release sequences continued by read-modify-write
  operations, ended by plain stores; acquire on the reading side), for executions in which every read
  returns the newest value (the harness's interleaving semantics).  At the beginning of every critical
  section the monitor requires that every earlier conflicting section on the same lock has ended with a
  clock that is below the beginning section's clock.
-/
import CppUtil.Core.Basic

namespace CppUtil.Monitor
open CppUtil

abbrev VC := List Nat

def vcGet (v : VC) (i : Nat) : Nat := v.getD i 0

def vcJoin : VC → VC → VC
  | [], b => b
  | a, [] => a
  | x :: xs, y :: ys => max x y :: vcJoin xs ys

def vcLe (a b : VC) : Bool :=
  (List.range a.length).all fun i => vcGet a i ≤ vcGet b i

def vcTick (v : VC) (i : Nat) : VC :=
  let v := if v.length ≤ i then v ++ List.replicate (i + 1 - v.length) 0 else v
  v.set i (vcGet v i + 1)

structure HbSection where
  gid : Nat
  lk : Nat
  mode : Mode
  /-- clock at the end of the section (set when the section has ended) -/
  endClock : Option VC := none
  deriving Repr

structure HbMon where
  bad : Option String := none
  clocks : List (Nat × VC) := []          -- per thread
  views : List (String × VC) := []         -- per location: view released by its current release sequence
  sections : List HbSection := []
  nChecked : Nat := 0
  nPairs : Nat := 0
  deriving Repr

def HbMon.flag (s : HbMon) (msg : String) : HbMon :=
  match s.bad with
  | some _ => s
  | none => { s with bad := some msg }

def HbMon.clock (s : HbMon) (t : Nat) : VC := ((s.clocks.find? (·.1 == t)).map (·.2)).getD []
def HbMon.view (s : HbMon) (loc : String) : VC := ((s.views.find? (·.1 == loc)).map (·.2)).getD []
def HbMon.setClock (s : HbMon) (t : Nat) (c : VC) : HbMon :=
  { s with clocks := (s.clocks.filter (·.1 != t)) ++ [(t, c)] }
def HbMon.setView (s : HbMon) (loc : String) (v : VC) : HbMon :=
  { s with views := (s.views.filter (·.1 != loc)) ++ [(loc, v)] }

def isAcqS (mo : String) : Bool := mo == "acq" || mo == "acq_rel" || mo == "sc" || mo == "con"
def isRelS (mo : String) : Bool := mo == "rel" || mo == "acq_rel" || mo == "sc"

/-- one atomic event of thread `t` -/
def hbEvent (s : HbMon) (t : Nat) (op loc mo moFail : String) (ok : Bool) : HbMon :=
  if op == "start" || op.startsWith "pay" || op.startsWith "hb." || op == "hold" || op == "await" then
    s.setClock t (vcTick (s.clock t) t)
  else
  let c0 := vcTick (s.clock t) t
  if op == "fence" then s.setClock t c0
  else if op == "load" then
    s.setClock t (if isAcqS mo then vcJoin c0 (s.view loc) else c0)
  else if op == "store" then
    (s.setClock t c0).setView loc (if isRelS mo then c0 else [])
  else if op == "cas" && !ok then
    s.setClock t (if isAcqS moFail then vcJoin c0 (s.view loc) else c0)
  else
    -- successful read-modify-write: acquires what it reads (if acquire), continues the release sequence
    let c1 := if isAcqS mo then vcJoin c0 (s.view loc) else c0
    (s.setClock t c1).setView loc (if isRelS mo then vcJoin (s.view loc) c1 else s.view loc)

/-- `G+gid:lk:mode` / `GU gid:mode` / `G-gid` tokens of thread `t` -/
def hbTok (s : HbMon) (t : Nat) (tok : String) : HbMon :=
  let check (s : HbMon) (gid lk : Nat) (mode : Mode) : HbMon :=
    let me := s.clock t
    let offenders := s.sections.filter fun g =>
      g.gid != gid && g.lk == lk && conflict g.mode mode &&
      (match g.endClock with | some e => !vcLe e me | none => false)
    let npairs := (s.sections.filter fun g => g.gid != gid && g.lk == lk && conflict g.mode mode && g.endClock.isSome).length
    let s := { s with nChecked := s.nChecked + 1, nPairs := s.nPairs + npairs }
    match offenders.head? with
    | some g =>
      s.flag s!"hb: section {gid} ({mode.toStr}) on lock {lk} begins without happening after the end of the conflicting section {g.gid} ({g.mode.toStr}): end clock {g.endClock.getD []} vs begin clock {me}"
    | none => s
  if tok.startsWith "G+" then
    match (tok.drop 2).toString.splitOn ":" with
    | [g, l, m] =>
      match g.toNat?, l.toNat?, Mode.ofStr? m with
      | some gid, some lk, some mode =>
        let s := check s gid lk mode
        { s with sections := s.sections ++ [{ gid := gid, lk := lk, mode := mode }] }
      | _, _, _ => s
    | _ => s
  else if tok.startsWith "GU" then
    match (tok.drop 2).toString.splitOn ":" with
    | [g, m] =>
      match g.toNat?, Mode.ofStr? m with
      | some gid, some mode =>
        match s.sections.find? (·.gid == gid) with
        | some sec =>
          -- an upgrade begins an exclusive section: it must come after every shared section that ended
          let s := if mode == .X then check s gid sec.lk mode else s
          { s with sections := s.sections.map fun x => if x.gid == gid then { x with mode := mode } else x }
        | none => s
      | _, _ => s
    | _ => s
  else if tok.startsWith "G-" then
    match (tok.drop 2).toString.toNat? with
    | some gid =>
      let e := s.clock t
      { s with sections := s.sections.map fun x => if x.gid == gid then { x with endClock := some e } else x }
    | none => s
  else s

end CppUtil.Monitor
