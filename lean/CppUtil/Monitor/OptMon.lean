/-
  Monitors for OptimisticLock scenarios over the implementation's events (C03 validation, C09 version
  discipline, C13 PrepareRead).  Words are decoded with the documented layout (design_doc/lock.md):
  bit 63 X, bit 62 SIX, bits 61..32 shared counter, bits 31..0 version.
-/
import CppUtil.Core.Basic

namespace CppUtil.Monitor
open CppUtil

def wX (w : Nat) : Bool := w / 2 ^ 63 % 2 == 1
def wSIX (w : Nat) : Bool := w / 2 ^ 62 % 2 == 1
def wS (w : Nat) : Nat := w / 2 ^ 32 % 2 ^ 30
def wVer (w : Nat) : Nat := w % 2 ^ 32

structure LastEv where
  op : String := ""
  lk : Nat := 0
  rd : Nat := 0
  wr : Nat := 0
  ok : Bool := true
  deriving Repr, Inhabited

/-- what an OptGuard / CompositeGuard variable carries -/
structure OptRec where
  var : Nat
  lk : Nat
  ver : Nat
  /-- number of versions published on the lock when the carried version was obtained -/
  idx : Nat
  deriving Repr

structure OptMon where
  bad : Option String := none
  last : List (Nat × LastEv) := []          -- per thread
  pendXE : List (Nat × Nat × Nat) := []     -- (thread, lock, expected new version)
  pubs : List (Nat × List Nat) := []        -- per lock: versions published by X-ends, oldest first
  /-- per lock, parallel to `pubs`: the published value had been requested through SetVersion -/
  expl : List (Nat × List Bool) := []
  /-- every value passed to SetVersion so far -/
  explicitVals : List Nat := []
  recs : List OptRec := []
  nStores : Nat := 0
  nChecksOk : Nat := 0
  nChecksFail : Nat := 0
  nChecksAcrossCommit : Nat := 0
  nTry : Nat := 0
  nPrep : Nat := 0
  nXB : Nat := 0
  deriving Repr

/-- the first violation of every category (text before the first colon) is kept, joined by ` || ` -/
def OptMon.flag (s : OptMon) (msg : String) : OptMon :=
  match s.bad with
  | some b =>
    if (b.splitOn " || ").any (fun m => (m.splitOn ":").headD "" == (msg.splitOn ":").headD "") then s
    else { s with bad := some (b ++ " || " ++ msg) }
  | none => { s with bad := some msg }

def OptMon.lastOf (s : OptMon) (tid : Nat) : LastEv := ((s.last.find? (·.1 == tid)).map (·.2)).getD {}
def OptMon.pubsOf (s : OptMon) (lk : Nat) : List Nat := ((s.pubs.find? (·.1 == lk)).map (·.2)).getD []
def OptMon.explOf (s : OptMon) (lk : Nat) : List Bool := ((s.expl.find? (·.1 == lk)).map (·.2)).getD []

/-- an atomic event on lock word `L<lk>` -/
def optEvent (s : OptMon) (tid : Nat) (op loc : String) (rd wr : Nat) (ok : Bool) : OptMon :=
  if !loc.startsWith "L" then s else
  match (loc.drop 1).toString.toNat? with
  | none => s
  | some lk =>
    let s := { s with last := (s.last.filter (·.1 != tid)) ++ [(tid, { op := op, lk := lk, rd := rd, wr := wr, ok := ok })] }
    if op == "store" then
      let s := { s with nStores := s.nStores + 1 }
      match s.pendXE.find? (fun p => p.1 == tid && p.2.1 == lk) with
      | some (_, _, exp) =>
        let s := { s with pendXE := s.pendXE.filter (fun p => !(p.1 == tid && p.2.1 == lk)),
                          pubs := (s.pubs.filter (·.1 != lk)) ++ [(lk, s.pubsOf lk ++ [wVer wr])],
                          expl := (s.expl.filter (·.1 != lk)) ++ [(lk, s.explOf lk ++ [s.explicitVals.contains (wVer wr)])] }
        let s := if wVer wr != exp then
            s.flag s!"verdisc: the exclusive section ended by thread {tid} published version {wVer wr}, requested {exp}" else s
        if wX wr || wS wr != 0 then
          s.flag s!"verdisc: the word stored at the end of an exclusive section has lock bits set ({wr})" else s
      | none => s.flag s!"verdisc: thread {tid} stored a whole lock word without ending an exclusive grant"
    else if op == "load" || op == "fence" then s
    else
      -- read-modify-write operations never change the version
      if ok && wVer wr != wVer rd then
        s.flag s!"verdisc: a {op} changed the version from {wVer rd} to {wVer wr}" else s

def hexNat (s : String) : Option Nat :=
  let t := if s.startsWith "0x" then (s.drop 2).toString else s
  t.foldl (fun acc c =>
    match acc with
    | none => none
    | some n =>
      if c.isDigit then some (n * 16 + (c.toNat - '0'.toNat))
      else if 'a' ≤ c ∧ c ≤ 'f' then some (n * 16 + (c.toNat - 'a'.toNat + 10))
      else none) (some 0)

def optTok (s : OptMon) (tid : Nat) (tok : String) : OptMon :=
  if tok.startsWith "XE" then
    match (tok.drop 2).toString.splitOn ":" with
    | [l, v] =>
      match l.toNat?, hexNat v with
      | some lk, some ver => { s with pendXE := s.pendXE ++ [(tid, lk, ver)] }
      | _, _ => s.flag s!"malformed token {tok}"
    | _ => s.flag s!"malformed token {tok}"
  else if tok.startsWith "XB" then
    match (tok.drop 2).toString.splitOn ":" with
    | [_, v] =>
      match hexNat v with
      | some ver =>
        let e := s.lastOf tid
        let s := { s with nXB := s.nXB + 1 }
        if wVer e.rd != ver then
          s.flag s!"verdisc: XGuard::GetVersion reports {ver} but the version at the granting step was {wVer e.rd}" else s
      | none => s.flag s!"malformed token {tok}"
    | _ => s.flag s!"malformed token {tok}"
  else s

/-- soundness of a successful check on the record `r`: some exclusive section ended since the version
    was obtained, and the carried version was not republished *through SetVersion*: a window in which the version
    recurs is tolerated only if some publication in it had been requested by the client (the property's premise
    "SetVersion is not used to republish an earlier value" is then the client's business); default increments alone
    cannot make a version recur -/
def commitInWindow (s : OptMon) (r : OptRec) : Bool :=
  let since := (s.pubsOf r.lk).drop r.idx
  let sinceExpl := (s.explOf r.lk).drop r.idx
  !since.isEmpty && (!since.contains r.ver || !sinceExpl.any id)

/-- results of the optimistic instructions; `a` = first variable argument, `b` = second -/
def optRes (s : OptMon) (tid : Nat) (opName : String) (a b : Nat) (res : String) : OptMon :=
  let e := s.lastOf tid
  if opName == "setver" then { s with explicitVals := s.explicitVals ++ [b % 2 ^ 32] }
  else if opName == "xver" then
    -- `now/atGrant`: the second was checked against the granting step's word when the guard was granted (token XB)
    match res.splitOn "/" with
    | [nowS, thenS] =>
      match hexNat nowS, hexNat thenS with
      | some now, some atGrant =>
        if now != atGrant then
          s.flag s!"verdisc: XGuard::GetVersion reports {now} later in the section, but the version at the granting step was {atGrant}"
        else s
      | _, _ => s.flag s!"malformed xver result {res}"
    | _ => s.flag s!"malformed xver result {res}"
  else if opName == "getver" then
    match hexNat res with
    | some v =>
      let s := if e.op != "load" || wX e.rd || wVer e.rd != v then
          s.flag s!"version: GetVersion returned {v} but its decisive read saw word {e.rd}" else s
      { s with recs := (s.recs.filter (·.var != a)) ++ [{ var := a, lk := b, ver := v, idx := (s.pubsOf b).length }] }
    | none => s.flag s!"malformed getver result {res}"
  else if opName == "verify" || opName == "cverify" then
    match res.splitOn ":" with
    | [okS, nv] =>
      match s.recs.find? (·.var == a), hexNat nv with
      | some r, some newv =>
        if okS == "1" then
          if opName == "cverify" && (r.ver == 2 ^ 32 || e.op != "load") then
            -- owning composite guard: no read.  A genuine shared grant keeps every writer out, so no exclusive section
            -- can have been committed on that lock since the guard was obtained
            let s := { s with nChecksOk := s.nChecksOk + 1 }
            if r.ver == 2 ^ 32 && !((s.pubsOf r.lk).drop r.idx).isEmpty then
              s.flag s!"version: VerifyVersion of an owning composite guard succeeded although an exclusive section was committed on its lock since PrepareRead returned (published since: {(s.pubsOf r.lk).drop r.idx}) [composite guard]"
            else s
          else
          let s := { s with nChecksOk := s.nChecksOk + 1 }
          let s := if wX e.rd || wVer e.rd != r.ver then
              s.flag (s!"version: VerifyVersion succeeded on word {e.rd} while the guard carried version {r.ver}" ++
                (if opName == "cverify" then " [composite guard]" else "")) else s
          let s := if !((s.pubsOf r.lk).drop r.idx).isEmpty then { s with nChecksAcrossCommit := s.nChecksAcrossCommit + 1 } else s
          if commitInWindow s r then
            s.flag (s!"version: VerifyVersion succeeded although an exclusive section was committed since version {r.ver} was obtained (published since: {(s.pubsOf r.lk).drop r.idx})" ++
              (if opName == "cverify" then " [composite guard]" else ""))
          else s
        else
          let s := { s with nChecksFail := s.nChecksFail + 1 }
          let s := if wVer e.rd == r.ver then
              s.flag (s!"version: VerifyVersion failed although the lock still has version {r.ver}" ++
                (if opName == "cverify" then " [composite guard]" else "")) else s
          let s := if newv != wVer e.rd then
              s.flag s!"version: after a failed check the guard carries {newv}, the lock had {wVer e.rd}" else s
          { s with recs := (s.recs.filter (·.var != a)) ++ [{ r with ver := newv, idx := (s.pubsOf r.lk).length }] }
      | none, _ => s
      | _, none => s.flag s!"malformed verify result {res}"
    | _ => s.flag s!"malformed verify result {res}"
  else if opName == "try" then
    -- a = destination guard, b = source OptGuard
    match res.splitOn ":" with
    | [okS, nv] =>
      match s.recs.find? (·.var == b), hexNat nv with
      | some r, some newv =>
        let s := { s with nTry := s.nTry + 1 }
        if okS == "1" then
          -- the granting step must be an atomic read-modify-write that read an X-free word of the guard's version
          -- (which operation it is — CAS, fetch_or, … — is the implementation's business)
          let rmw := (e.op == "cas" && e.ok) || ["fadd", "fsub", "for", "fand", "fxor", "xchg"].contains e.op
          let s := if !rmw || wX e.rd || wVer e.rd != r.ver then
              s.flag s!"version: TryLock returned an owning guard but its granting step ({e.op}) read word {e.rd}, not an exclusive-free word of version {r.ver}" else s
          if commitInWindow s r then
            s.flag s!"version: TryLock succeeded although an exclusive section was committed since version {r.ver} was obtained"
          else s
        else
          let s := if wVer e.rd == r.ver && !wX e.rd then
              s.flag s!"version: TryLock failed although the lock still has version {r.ver}" else s
          { s with recs := (s.recs.filter (·.var != b)) ++ [{ r with ver := newv, idx := (s.pubsOf r.lk).length }] }
      | none, _ => s
      | _, none => s.flag s!"malformed try result {res}"
    | _ => s.flag s!"malformed try result {res}"
  else if opName == "prep" then
    match res.splitOn ":" with
    | [own, v] =>
      match hexNat v with
      | some ver =>
        let s := { s with nPrep := s.nPrep + 1 }
        if own == "1" then
          let s := if e.op != "cas" || !e.ok || wX e.rd || wSIX e.rd || wS e.rd != 0 then
              s.flag s!"prepare: PrepareRead took a shared lock from word {e.rd} (not completely free)" else s
          -- record of an owning guard: version 2^32 (no real version), publications counted from here
          { s with recs := (s.recs.filter (·.var != a)) ++ [{ var := a, lk := b, ver := 2 ^ 32, idx := (s.pubsOf b).length }] }
        else
          let s := if e.op != "load" || wX e.rd || wVer e.rd != ver then
              s.flag s!"prepare: PrepareRead returned version {ver} but its decisive read saw word {e.rd}" else s
          { s with recs := (s.recs.filter (·.var != a)) ++ [{ var := a, lk := b, ver := ver, idx := (s.pubsOf b).length }] }
      | none => s.flag s!"malformed prep result {res}"
    | _ => s.flag s!"malformed prep result {res}"
  else if opName == "massign" || opName == "mctor" then
    -- composite guards carry their record along
    match s.recs.find? (·.var == b) with
    | some r => { s with recs := (s.recs.filter (fun x => x.var != a && x.var != b)) ++ [{ r with var := a }] }
    | none => { s with recs := s.recs.filter (·.var != a) }
  else if opName == "dtor" then { s with recs := s.recs.filter (·.var != a) }
  else s

end CppUtil.Monitor
