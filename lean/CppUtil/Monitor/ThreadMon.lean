/-
  Monitors for the IDManager / EpochManager scenarios (C04, C05, C14, C15, C16, C17, C20), over the
  implementation's events and local tokens.  Executable specification of what the API must show.
-/
import CppUtil.Core.Basic

namespace CppUtil.Monitor
open CppUtil

structure ThreadMon where
  bad : Option String := none
  init : Nat := 256
  capacity : Nat := 256
  -- global epoch as published (store G events) and forward progress
  g : Nat := 256
  coord : Option Nat := none
  inFwd : Bool := false
  fwdCur : Option Nat := none
  scanned : List Nat := []
  nonFresh : Bool := false
  -- API-level view
  lastFE : Nat := 256
  maxMinReturned : Nat := 0
  lastCurReturned : Nat := 0
  /-- live guards: (var, epoch) -/
  guards : List (Nat × Nat) := []
  /-- thread that created the guard in `var` -/
  gowner : List (Nat × Nat) := []
  snap : List (Nat × Nat) := []
  quiet : Bool := false
  /-- guard creations begun and not yet completed -/
  creating : Nat := 0
  /-- some thread held two guards at once in this history -/
  nested : Bool := false
  lists : List (Nat × String) := []
  -- counters
  nFwd : Nat := 0
  nGuards : Nat := 0
  nPinnedAcrossFwd : Nat := 0
  nQuiescentFwd : Nat := 0
  nLists : Nat := 0
  nRelists : Nat := 0
  nIds : Nat := 0
  /-- reservation flags as seen in the events, and per (thread, slot): probe steps made while the slot stayed free -/
  taken : List Nat := []
  probeFree : List (Nat × Nat × Nat) := []
  nSlots : Nat := 0
  maxProbeFree : Nat := 0
  maxLiveNodes : Nat := 0
  deriving Repr

/-- category of a message = the text before the first colon -/
def msgCat (m : String) : String := (m.splitOn ":").headD ""

/-- the first violation of every category is kept (joined by ` || `) -/
def ThreadMon.flag (s : ThreadMon) (msg : String) : ThreadMon :=
  let full := msg ++ (if s.nonFresh then " [history contains a non-fresh EnterEpoch store]" else "")
                  ++ (if s.nested then " [a thread held two guards at once]" else "")
  match s.bad with
  | some b => if (b.splitOn " || ").any (fun m => msgCat m == msgCat msg) then s else { s with bad := some (b ++ " || " ++ full) }
  | none => { s with bad := some full }

def parseList (s : String) : Option (List Nat) :=
  if s.startsWith "[" && s.endsWith "]" then
    let inner := ((s.drop 1).toString.dropEnd 1).toString
    if inner.isEmpty then some []
    else (inner.splitOn ",").foldr (fun x acc => do let a ← acc; let n ← x.toNat?; some (n :: a)) (some [])
  else none

def strictlyDesc : List Nat → Bool
  | a :: b :: rest => a > b && strictlyDesc (b :: rest)
  | _ => true

def insDesc (x : Nat) : List Nat → List Nat
  | [] => [x]
  | y :: ys => if x > y then x :: y :: ys else if x = y then y :: ys else y :: insDesc x ys

def sortDescDedupSpec (l : List Nat) : List Nat := l.foldl (fun acc x => insDesc x acc) []

def distinctCount (l : List Nat) : Nat := (sortDescDedupSpec l).length

/-- IDManager events: a thread that keeps probing while one and the same slot stays free is not making the
    progress C14 promises -/
def idEvent (s : ThreadMon) (tid : Nat) (op : String) (slot : Nat) (wr : Nat) : ThreadMon :=
  let s := { s with nSlots := max s.nSlots (slot + 1) }
  -- this thread made one more probe step: count it against every slot that is free right now
  let s := if op == "load" || op == "xchg" then
      let freeSlots := (List.range s.nSlots).filter fun i => !s.taken.contains i
      let upd : List (Nat × Nat × Nat) := freeSlots.map fun i =>
        let old : Nat := ((s.probeFree.find? fun p => p.1 == tid && p.2.1 == i).map (·.2.2)).getD 0
        (tid, i, old + 1)
      let rest := s.probeFree.filter fun p => !(p.1 == tid && freeSlots.contains p.2.1)
      let worst : Nat := upd.foldl (fun (m : Nat) (p : Nat × Nat × Nat) => max m p.2.2) 0
      let s := { s with probeFree := rest ++ upd, maxProbeFree := max s.maxProbeFree worst }
      if worst > 4 * s.nSlots + 4 then
        s.flag s!"idleak: thread {tid} is still probing after {worst} steps although an ID has been free all that time"
      else s
    else s
  if op == "xchg" && wr == 1 then
    { s with taken := if s.taken.contains slot then s.taken else slot :: s.taken,
             probeFree := s.probeFree.filter fun p => p.2.1 != slot }
  else if op == "store" && wr == 0 then { s with taken := s.taken.filter (· != slot) }
  else s

/-- atomic / pseudo events of the trace -/
def threadEvent (s : ThreadMon) (tid : Nat) (op loc : String) (rd wr : Nat) : ThreadMon :=
  if loc.startsWith "I" then
    match (loc.drop 1).toString.toNat? with
    | some slot => idEvent s tid op slot wr
    | none => s
  else
  if op == "store" && loc == "G" then { s with g := wr, scanned := [], fwdCur := none }
  else if op == "load" && loc == "G" && s.inFwd && s.coord == some tid then { s with fwdCur := some rd, scanned := [] }
  else if op == "hb.expired" && s.inFwd && s.coord == some tid then
    match (loc.drop 1).toString.toNat? with
    | some i => { s with scanned := i :: s.scanned }
    | none => s
  else if op == "store" && loc.startsWith "E" && wr != 2 ^ 64 - 1 then
    match (loc.drop 1).toString.toNat? with
    | some k =>
      let e := wr
      let fresh := s.g == e || (s.g == e + 1 && !(s.fwdCur == some (e + 1) && s.scanned.contains k))
      if fresh then s else { s with nonFresh := true }
    | none => s
  else s

def threadTok (seq : Bool) (cap : Nat) (s : ThreadMon) (tid : Nat) (tok : String) : ThreadMon :=
  if tok == "FS" then
    { s with coord := some tid, inFwd := true, snap := s.guards, quiet := s.guards.isEmpty && s.creating == 0 }
  else if tok.startsWith "FE" then
    match (tok.drop 2).toString.splitOn ":" with
    | [c, m, l, live] =>
      match c.toNat?, m.toNat?, parseList l, live.toNat? with
      | some cur, some mn, some lst, some lv =>
        let s := { s with inFwd := false, nFwd := s.nFwd + 1, maxLiveNodes := max s.maxLiveNodes lv }
        -- C16: +1 per forward, min ≤ cur
        let s := if cur != s.lastFE + 1 then s.flag s!"epoch: ForwardGlobalEpoch moved the global epoch from {s.lastFE} to {cur}" else s
        let s := if mn > cur then s.flag s!"epoch: min epoch {mn} exceeds current epoch {cur}" else s
        let s := { s with lastFE := cur }
        -- C04: guards completely created before the forward started and still alive now
        let pinned := s.snap.filter fun g => s.guards.contains g
        let s := { s with nPinnedAcrossFwd := s.nPinnedAcrossFwd + pinned.length }
        let s := match pinned.find? (fun g => !(lst.contains g.2) || mn > g.2) with
          | some g => s.flag s!"pin: guard {g.1} pins epoch {g.2} across a complete ForwardGlobalEpoch but the list of epoch {cur} is {l} and min is {mn}"
          | none => s
        -- C16: quiescent forward
        let s := if s.quiet then
            let s := { s with nQuiescentFwd := s.nQuiescentFwd + 1 }
            if lst != [cur, cur - 1] || mn != cur - 1 then
              s.flag s!"epoch: forward without any guard published {l} / min {mn}, expected [{cur},{cur - 1}] / {cur - 1}"
            else s
          else s
        -- C20: sequential histories: exact set, minimum, node bound
        if seq then
          let expected := sortDescDedupSpec ([cur, cur - 1] ++ s.guards.map (·.2))
          let s := if lst != expected then s.flag s!"seqlist: published {l}, expected {expected}" else s
          let s := if some mn != expected.getLast? then s.flag s!"seqlist: min {mn} is not the smallest element of {expected}" else s
          let ranges := distinctCount (expected.map fun e => e / s.capacity)
          if lv > ranges + 1 then s.flag s!"seqnodes: {lv} list nodes alive for {ranges} occupied ranges" else s
        else s
      | _, _, _, _ => s.flag s!"malformed token {tok}"
    | _ => s.flag s!"malformed token {tok}"
  else if tok == "IDRANGE" then s.flag "ids: GetThreadID returned a value outside [0, capacity)"
  else if tok == "IDCHG" then s.flag "ids: GetThreadID returned a different ID on a later call of the same thread"
  else if tok.startsWith "LFREE" then
    let v := (tok.drop 5).toString
    s.flag s!"list: the list node holding the vector handed to guard {v} was freed while the guard is alive"
  else if tok.startsWith "IDDUP" then s.flag s!"ids: two running threads hold ID {(tok.drop 5).toString}"
  else if tok.startsWith "HBLIVE" then
    s.flag s!"heartbeat: ID {(tok.drop 6).toString} was handed to a new thread while a heartbeat of an earlier owner is unexpired"
  else if tok == "HANG" then s.flag "epoch: RemoveOutDatedLists does not terminate / dereferences null"
  else
    let _ := cap
    s

/-- `B<k>`: instruction `opName` begins -/
def threadBegin (s : ThreadMon) (tid : Nat) (opName : String) : ThreadMon :=
  if opName == "guard" || opName == "gpe" then
    { s with creating := s.creating + 1, quiet := false, nested := s.nested || s.gowner.any (·.2 == tid) }
  else s

/-- `R<k>=res` of instruction `op` (printed form of the instruction: first word) -/
def threadResOp (seq : Bool) (tid : Nat) (s : ThreadMon) (opName : String) (var : Nat) (res : String) : ThreadMon :=
  let _ := seq
  if opName == "gid" then
    match res.toNat? with
    | some _ => { s with nIds := s.nIds + 1, probeFree := s.probeFree.filter fun p => p.1 != tid }
    | none => s.flag s!"malformed gid result {res}"
  else if opName == "hbget" then
    if res == "0" then s else s.flag "heartbeat: expired while its thread is still running"
  else if opName == "guard" then
    match res.toNat? with
    | some e =>
      let others := (s.gowner.filter fun p => p.1 != var && p.2 == tid).length
      { s with guards := (s.guards.filter (·.1 != var)) ++ [(var, e)], nGuards := s.nGuards + 1, quiet := false,
               creating := s.creating - 1, gowner := (s.gowner.filter (·.1 != var)) ++ [(var, tid)],
               nested := s.nested || others > 0 }
    | none => s.flag s!"malformed guard result {res}"
  else if opName == "gpe" then
    match res.splitOn ":" with
    | [es, l] =>
      match es.toNat?, parseList l with
      | some e, some lst =>
        let others := (s.gowner.filter fun p => p.1 != var && p.2 == tid).length
        let s := { s with guards := (s.guards.filter (·.1 != var)) ++ [(var, e)], nGuards := s.nGuards + 1, quiet := false,
                          creating := s.creating - 1, gowner := (s.gowner.filter (·.1 != var)) ++ [(var, tid)],
                          nested := s.nested || others > 0,
                          lists := (s.lists.filter (·.1 != var)) ++ [(var, l)], nLists := s.nLists + 1 }
        let s := if lst.head? != some e then s.flag s!"list: guard epoch {e} but the returned list is {l}" else s
        let s := if !strictlyDesc lst then s.flag s!"list: {l} is not strictly descending" else s
        if e > s.init && !(lst.contains (e - 1)) then s.flag s!"list: {l} does not contain the preceding epoch of {e}" else s
      | _, _ => s.flag s!"list: GetProtectedEpochs returned {res}"
    | _ => s.flag s!"list: GetProtectedEpochs returned {res}"
  else if opName == "relist" then
    match s.lists.find? (·.1 == var) with
    | some (_, l) => if l == res then { s with nRelists := s.nRelists + 1 }
                     else s.flag s!"list: the list handed to guard {var} changed from {l} to {res} while the guard is alive"
    | none => s
  else if opName == "unguard" then
    { s with guards := s.guards.filter (·.1 != var), lists := s.lists.filter (·.1 != var),
             gowner := s.gowner.filter (·.1 != var) }
  else if opName == "cur" then
    match res.toNat? with
    | some c =>
      let s := if c < s.maxMinReturned then s.flag s!"epoch: GetCurrentEpoch returned {c} after GetMinEpoch returned {s.maxMinReturned}" else s
      let s := if c < s.lastCurReturned then s.flag s!"epoch: GetCurrentEpoch decreased from {s.lastCurReturned} to {c}" else s
      { s with lastCurReturned := c }
    | none => s
  else if opName == "min" then
    match res.toNat? with
    | some m => { s with maxMinReturned := max s.maxMinReturned m }
    | none => s
  else s

def threadEnd (s : ThreadMon) (unexpired reserved live : Option Nat) : ThreadMon :=
  let s := match unexpired with
    | some n => if n > 0 then s.flag s!"heartbeat: {n} heartbeat(s) of exited threads are not expired" else s
    | none => s
  let s := match reserved with
    | some n => if n > 0 then s.flag s!"idleak: {n} ID(s) still reserved after all threads exited" else s
    | none => s
  match live with
  | some n => if n > 0 then s.flag s!"seqnodes: {n} list node(s) not freed by the destructor" else s
  | none => s

end CppUtil.Monitor
