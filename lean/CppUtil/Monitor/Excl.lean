/-
  Monitors over the *local event tokens* of a trace (implementation or model):
  grant registry / mode compatibility (C01, C10), guard-ownership agreement (C07),
  payload consistency (C01 corollary).  Executable; used by the driver on every
  implementation trace, and the subject of the monitor theorems in `Props/`.
-/
import CppUtil.Core.Basic

namespace CppUtil.Monitor
open CppUtil

structure Grant where
  gid : Nat
  lk : Nat
  mode : Mode
  deriving Repr, DecidableEq

structure MonSt where
  grants : List Grant := []
  /-- first violation found, if any -/
  bad : Option String := none
  /-- counters for the evidence -/
  nGrants : Nat := 0
  nConv : Nat := 0
  nBool : Nat := 0
  nPay : Nat := 0
  maxSimul : Nat := 0
  deriving Repr

def flag (s : MonSt) (msg : String) : MonSt :=
  match s.bad with
  | some _ => s
  | none => { s with bad := some msg }

/-- all grants on lock `lk` other than `gid` are compatible with `m` -/
def compatibleWith (gs : List Grant) (gid lk : Nat) (m : Mode) : Bool :=
  gs.all fun g => g.gid == gid || g.lk != lk || !conflict g.mode m

def parseNat? (s : String) : Option Nat := s.toNat?

/-- process one local-event token -/
def stepTok (s : MonSt) (tok : String) : MonSt :=
  if tok.startsWith "G+" then
    match (tok.drop 2).toString.splitOn ":" with
    | [g, l, m] =>
      match g.toNat?, l.toNat?, Mode.ofStr? m with
      | some gid, some lk, some mode =>
        let s := if compatibleWith s.grants gid lk mode then s
                 else flag s s!"excl: grant {gid} mode {m} on lock {lk} conflicts with a live grant"
        let gs := s.grants ++ [⟨gid, lk, mode⟩]
        { s with grants := gs, nGrants := s.nGrants + 1, maxSimul := max s.maxSimul gs.length }
      | _, _, _ => flag s s!"malformed token {tok}"
    | _ => flag s s!"malformed token {tok}"
  else if tok.startsWith "GU" then
    match (tok.drop 2).toString.splitOn ":" with
    | [g, m] =>
      match g.toNat?, Mode.ofStr? m with
      | some gid, some mode =>
        match s.grants.find? (·.gid == gid) with
        | some gr =>
          let s := if compatibleWith s.grants gid gr.lk mode then s
                   else flag s s!"excl: conversion of grant {gid} to {m} conflicts with a live grant"
          { s with grants := s.grants.map (fun g => if g.gid == gid then { g with mode := mode } else g),
                   nConv := s.nConv + 1 }
        | none => flag s s!"guard: conversion of unknown grant {gid}"
      | _, _ => flag s s!"malformed token {tok}"
    | _ => flag s s!"malformed token {tok}"
  else if tok.startsWith "GLOST" then
    flag s s!"guard: conversion of an owning guard returned a non-owning guard ({tok})"
  else if tok.startsWith "G-" then
    match (tok.drop 2).toString.toNat? with
    | some gid =>
      if s.grants.any (·.gid == gid) then { s with grants := s.grants.filter (·.gid != gid) }
      else flag s s!"guard: grant {gid} released twice or never granted"
    | none => flag s s!"malformed token {tok}"
  else s

/-- tokens of the form `R<k>=<res>`: instruction-specific checks that need the instruction -/
def checkBool (s : MonSt) (res : String) : MonSt :=
  match res.splitOn "/" with
  | [a, b] => if a == b then { s with nBool := s.nBool + 1 }
              else flag s s!"guard: operator bool = {a} but ownership ghost = {b}"
  | _ => flag s s!"malformed bool result {res}"

def checkPay (s : MonSt) (res : String) : MonSt :=
  match res.splitOn "," with
  | [a, b] => if a == b then { s with nPay := s.nPay + 1 }
              else flag s s!"payload: torn read ({a},{b})"
  | _ => flag s s!"malformed payload result {res}"

end CppUtil.Monitor
