/-
  Monitors over the *local event tokens* of a trace (implementation or model):
  grant registry / mode compatibility (C01, C10), guard-ownership agreement (C07),
  payload consistency (C01 corollary).  Executable; used by the driver on every
  implementation trace, and the subject of the monitor theorems in `Props/`.
-/
import CppUtil.Core.Basic
import CppUtil.Monitor.ThreadMon
import CppUtil.Monitor.OptMon
import CppUtil.Monitor.Hb

namespace CppUtil.Monitor
open CppUtil

structure Grant where
  gid : Nat
  lk : Nat
  mode : Mode
  /-- thread in whose quantum the grant began -/
  tid : Nat := 0
  deriving Repr, DecidableEq

/-- a blocking request on an MCS lock, for the arrival-order monitor (C11) -/
structure FReq where
  tid : Nat
  lk : Nat
  mode : Mode
  arrival : Option Nat := none
  granted : Bool := false
  deriving Repr

structure MonSt where
  grants : List Grant := []
  reqs : List FReq := []
  arrivals : Nat := 0
  liveNodes : Int := 0
  maxLiveNodes : Int := 0
  nFifoChecks : Nat := 0
  th : ThreadMon := {}
  opt : OptMon := {}
  hb : HbMon := {}
  /-- first violation found, if any -/
  bad : Option String := none
  /-- counters for the evidence -/
  nGrants : Nat := 0
  nConv : Nat := 0
  nBool : Nat := 0
  nPay : Nat := 0
  maxSimul : Nat := 0
  deriving Repr

/-- the first violation of every category (text before the first colon) is kept, joined by ` || ` -/
def flag (s : MonSt) (msg : String) : MonSt :=
  match s.bad with
  | some b =>
    if (b.splitOn " || ").any (fun m => (m.splitOn ":").headD "" == (msg.splitOn ":").headD "") then s
    else { s with bad := some (b ++ " || " ++ msg) }
  | none => { s with bad := some msg }

/-- all grants on lock `lk` other than `gid` are compatible with `m` -/
def compatibleWith (gs : List Grant) (gid lk : Nat) (m : Mode) : Bool :=
  gs.all fun g => g.gid == gid || g.lk != lk || !conflict g.mode m

def parseNat? (s : String) : Option Nat := s.toNat?

/-- process one local-event token -/
def stepTok (s : MonSt) (tok : String) (tid : Nat := 0) : MonSt :=
  if tok.startsWith "G+" then
    match (tok.drop 2).toString.splitOn ":" with
    | [g, l, m] =>
      match g.toNat?, l.toNat?, Mode.ofStr? m with
      | some gid, some lk, some mode =>
        let s := if compatibleWith s.grants gid lk mode then s
                 else flag s s!"excl: grant {gid} mode {m} on lock {lk} conflicts with a live grant"
        let gs := s.grants ++ [⟨gid, lk, mode, tid⟩]
        { s with grants := gs, nGrants := s.nGrants + 1, maxSimul := max s.maxSimul gs.length }
      | _, _, _ => flag s s!"malformed token {tok}"
    | _ => flag s s!"malformed token {tok}"
  else if tok.startsWith "GU" then
    match (tok.drop 2).toString.splitOn ":" with
    | [g, m] =>
      match g.toNat?, Mode.ofStr? m with
      | some gid, some mode =>
        match s.grants.find? (·.gid == gid) with
        | some gr =>
          let s := if compatibleWith s.grants gid gr.lk mode then s
                   else flag s s!"excl: conversion of grant {gid} to {m} conflicts with a live grant"
          { s with grants := s.grants.map (fun g => if g.gid == gid then { g with mode := mode } else g),
                   nConv := s.nConv + 1 }
        | none => flag s s!"guard: conversion of unknown grant {gid}"
      | _, _ => flag s s!"malformed token {tok}"
    | _ => flag s s!"malformed token {tok}"
  else if tok.startsWith "GLOST" then
    flag s s!"guard: conversion of an owning guard returned a non-owning guard ({tok})"
  else if tok.startsWith "G-" then
    match (tok.drop 2).toString.toNat? with
    | some gid =>
      if s.grants.any (·.gid == gid) then { s with grants := s.grants.filter (·.gid != gid) }
      else flag s s!"guard: grant {gid} released twice or never granted"
    | none => flag s s!"malformed token {tok}"
  else s

/-- `B<k>` of a `lock` instruction: a new blocking request -/
def fifoBegin (s : MonSt) (tid lk : Nat) (m : Mode) : MonSt :=
  { s with reqs := s.reqs ++ [{ tid := tid, lk := lk, mode := m }] }

/-- an atomic event of thread `tid`: the first successful write to the lock word by its pending request
    is the request's arrival -/
def fifoEvent (s : MonSt) (tid : Nat) (op loc ok : String) : MonSt :=
  if (op == "xchg" || (op == "cas" && ok == "1")) && loc.startsWith "L" then
    match (loc.drop 1).toString.toNat? with
    | some lk =>
      let hit := s.reqs.any fun r => r.tid == tid && r.lk == lk && r.arrival.isNone && !r.granted
      if hit then
        let n := s.arrivals
        { s with arrivals := n + 1,
                 reqs := s.reqs.map fun r =>
                   if r.tid == tid && r.lk == lk && r.arrival.isNone && !r.granted then { r with arrival := some n } else r }
      else s
    | none => s
  else s

/-- `G+` by thread `tid`: its pending request is granted; every conflicting request that arrived earlier on
    the same lock must already have been granted -/
def fifoGrant (s : MonSt) (tid : Nat) (tok : String) : MonSt :=
  match s.reqs.find? (fun r => r.tid == tid && !r.granted) with
  | some me =>
    let s := { s with reqs := s.reqs.map fun r => if r.tid == tid && !r.granted then { r with granted := true } else r }
    match me.arrival with
    | some n =>
      let overtaken := s.reqs.filter fun r =>
        r.lk == me.lk && !r.granted && conflict r.mode me.mode &&
        (match r.arrival with | some k => k < n | none => false)
      let s := { s with nFifoChecks := s.nFifoChecks + 1 }
      match overtaken.head? with
      | some o => flag s s!"fifo: request of thread {tid} ({me.mode.toStr}, arrival {n}) granted ({tok}) before the conflicting request of thread {o.tid} ({o.mode.toStr}) that arrived earlier"
      | none => s
    | none => s
  | none => s

/-- node allocation / free tokens -/
def nodeTok (s : MonSt) (tok : String) : MonSt :=
  if tok.startsWith "NA" then
    let l := s.liveNodes + 1
    { s with liveNodes := l, maxLiveNodes := max s.maxLiveNodes l }
  else
    let l := s.liveNodes - 1
    if l < 0 then flag s "nodes: more queue nodes freed than allocated" else { s with liveNodes := l }

/-- tokens of the form `R<k>=<res>`: instruction-specific checks that need the instruction -/
def checkBool (s : MonSt) (res : String) : MonSt :=
  match res.splitOn "/" with
  | [a, b] => if a == b then { s with nBool := s.nBool + 1 }
              else flag s s!"guard: operator bool = {a} but ownership ghost = {b}"
  | _ => flag s s!"malformed bool result {res}"

def checkPay (s : MonSt) (res : String) : MonSt :=
  match res.splitOn "," with
  | [a, b] => if a == b then { s with nPay := s.nPay + 1 }
              else flag s s!"payload: torn read ({a},{b})"
  | _ => flag s s!"malformed payload result {res}"

end CppUtil.Monitor
