import CppUtil.Core.Basic
import CppUtil.Model.WLock
import CppUtil.Model.WInst
import CppUtil.Gen.Pess
import CppUtil.Gen.Opt
