"""Small comment/string-aware scanner for the C++ in /repo: strips comments, finds
function bodies by brace matching, lists atomic call sites with their memory-order
arguments.  Deliberately not a C++ parser: it recognises exactly the shapes the
extractor needs and reports when a function does not have the expected shape."""
import re

ORDER_TOKENS = {
    'kRelaxed': 'rlx', 'kAcquire': 'acq', 'kRelease': 'rel',
    'std::memory_order_relaxed': 'rlx', 'std::memory_order_acquire': 'acq',
    'std::memory_order_release': 'rel', 'std::memory_order_acq_rel': 'acqrel',
    'std::memory_order_seq_cst': 'sc', 'std::memory_order_consume': 'acq',
    'memory_order_relaxed': 'rlx', 'memory_order_acquire': 'acq',
    'memory_order_release': 'rel', 'memory_order_acq_rel': 'acqrel',
    'memory_order_seq_cst': 'sc',
    'std::memory_order::relaxed': 'rlx', 'std::memory_order::acquire': 'acq',
    'std::memory_order::release': 'rel', 'std::memory_order::acq_rel': 'acqrel',
    'std::memory_order::seq_cst': 'sc',
}

ATOMIC_METHODS = {
    'load': 'load', 'store': 'store', 'exchange': 'xchg',
    'compare_exchange_weak': 'cas', 'compare_exchange_strong': 'cas',
    'fetch_add': 'fadd', 'fetch_sub': 'fsub', 'fetch_xor': 'fxor',
    'fetch_or': 'for', 'fetch_and': 'fand',
}


def strip_comments(src: str) -> str:
    """Replace comments by spaces (keeping newlines) and string/char literal bodies by spaces."""
    out = []
    i, n = 0, len(src)
    while i < n:
        c = src[i]
        if src.startswith('//', i):
            j = src.find('\n', i)
            if j < 0:
                j = n
            out.append(' ' * (j - i))
            i = j
        elif src.startswith('/*', i):
            j = src.find('*/', i + 2)
            j = n if j < 0 else j + 2
            out.append(''.join(ch if ch == '\n' else ' ' for ch in src[i:j]))
            i = j
        elif c == '"' or c == "'":
            q = c
            j = i + 1
            while j < n and src[j] != q:
                if src[j] == '\\':
                    j += 1
                j += 1
            out.append(q + ' ' * (j - i - 1) + q)
            i = j + 1
        else:
            out.append(c)
            i += 1
    return ''.join(out)


def match_close(src: str, i: int, open_ch='{', close_ch='}') -> int:
    """src[i] == open_ch; return index of the matching close."""
    depth = 0
    n = len(src)
    while i < n:
        if src[i] == open_ch:
            depth += 1
        elif src[i] == close_ch:
            depth -= 1
            if depth == 0:
                return i
        i += 1
    return -1


def find_functions(src: str, qualname: str):
    """all out-of-class definitions `qualname(...) ... { body }` (overloads, e.g. constructors) as (params, body)"""
    out = []
    pos = 0
    while True:
        pat = re.compile(r'(?<![\w:])' + re.escape(qualname) + r'\s*\(')
        m = pat.search(src, pos)
        if not m:
            return out
        r = find_function(src[m.start():], qualname)
        p_close = match_close(src, m.end() - 1, '(', ')')
        if r is not None and p_close > 0:
            out.append((src[m.end():p_close], r[1]))
        pos = m.end()


def find_function(src: str, qualname: str):
    """Return (header, body) of the out-of-class definition `qualname(...) ... { body }`
    in comment-stripped source, or None.  qualname e.g. 'PessimisticLock::LockS' or
    'PessimisticLock::SGuard::~SGuard' or 'MCSLock::SGuard::operator='."""
    pat = re.compile(r'(?<![\w:])' + re.escape(qualname) + r'\s*\(')
    for m in pat.finditer(src):
        # parameter list
        p_open = m.end() - 1
        p_close = match_close(src, p_open, '(', ')')
        if p_close < 0:
            continue
        # next non-space char sequence up to '{' or ';'
        j = p_close + 1
        k = j
        while k < len(src) and src[k] not in '{;':
            k += 1
        if k >= len(src) or src[k] == ';':
            continue
        # a constructor initialiser list may contain braces: `: a_{x}, b_{y} {`
        between = src[j:k]
        if ':' in between.replace('::', ''):
            # walk over member initialisers
            kk = k
            while True:
                # src[kk] == '{' : decide whether this brace is an initialiser (preceded by identifier)
                prev = src[:kk].rstrip()
                if re.search(r'[\w>]$', prev) and not re.search(r'\)\s*$|noexcept\s*$|const\s*$', prev):
                    cl = match_close(src, kk)
                    kk = cl + 1
                    while kk < len(src) and src[kk] != '{':
                        kk += 1
                    if kk >= len(src):
                        break
                else:
                    break
            k = kk
        b_close = match_close(src, k)
        if b_close < 0:
            continue
        return src[m.start():k], src[k + 1:b_close]
    return None


def split_args(argstr: str):
    args, depth, cur = [], 0, []
    for ch in argstr:
        if ch in '([{<' and not (ch == '<'):
            depth += 1
        elif ch in ')]}':
            depth -= 1
        if ch == ',' and depth == 0:
            args.append(''.join(cur).strip())
            cur = []
        else:
            cur.append(ch)
    last = ''.join(cur).strip()
    if last:
        args.append(last)
    return args


_site_pat = re.compile(
    r'(?:(?:\.|->)\s*(' + '|'.join(ATOMIC_METHODS) + r')|(?<![\w])(?:std::)?(atomic_thread_fence))\s*\(')


def atomic_sites(body: str):
    """List atomic call sites in textual order: dicts {op, recv, orders:[...], args:[...]}."""
    sites = []
    for m in _site_pat.finditer(body):
        meth = m.group(1) or m.group(2)
        p_open = m.end() - 1
        p_close = match_close(body, p_open, '(', ')')
        args = split_args(body[p_open + 1:p_close])
        orders = []
        rest = list(args)
        def order_of(tok):
            # `kRelease`, `::dbgroup::lock::kRelease`, `std::memory_order_release`, `std::memory_order::release`
            if tok in ORDER_TOKENS:
                return ORDER_TOKENS[tok]
            last = tok.replace(' ', '').split('::')[-1]
            if last in ORDER_TOKENS:
                return ORDER_TOKENS[last]
            if 'memory_order' in tok and ('memory_order_' + last) in ORDER_TOKENS:
                return ORDER_TOKENS['memory_order_' + last]
            return None
        while rest and order_of(rest[-1]) is not None:
            orders.insert(0, order_of(rest.pop()))
        if meth == 'atomic_thread_fence':
            op = 'fence'
            recv = ''
        else:
            op = ATOMIC_METHODS[meth]
            # receiver text: walk back over identifier chars, ->, ., (), []
            k = m.start()
            j = k
            depth = 0
            while j > 0:
                ch = body[j - 1]
                if ch in ')]':
                    depth += 1
                elif ch in '([':
                    if depth == 0:
                        break
                    depth -= 1
                elif depth == 0 and not (ch.isalnum() or ch in '_.>-:&*'):
                    break
                j -= 1
            recv = body[j:k].strip()
        if not orders:
            # default argument: seq_cst (for CAS: both)
            orders = ['sc', 'sc'] if op == 'cas' else ['sc']
        elif op == 'cas' and len(orders) == 1:
            # single-order CAS: failure order derived from success order
            s = orders[0]
            f = {'acqrel': 'acq', 'rel': 'rlx'}.get(s, s)
            orders = [s, f]
        sites.append({'op': op, 'recv': recv, 'orders': orders, 'args': rest, 'meth': meth})
    return sites


_CALL_PAT = re.compile(r'(?<![\w:])([A-Za-z_]\w*)\s*\(')   # free calls and member calls (`x.Helper(...)`, `p->Helper(...)`)
_NOT_HELPERS = {'if', 'while', 'for', 'switch', 'return', 'sizeof', 'static_cast', 'reinterpret_cast', 'const_cast',
                'dynamic_cast', 'decltype', 'alignof', 'noexcept', 'catch', 'assert', 'defined', 'SpinWithBackoff'}


def find_free_function(src: str, name: str):
    """body of the free (non-member) function `name` defined in `src`, or None: the text between the parameter list and
    the opening brace may only hold qualifiers / a trailing return type (so `if (name(x)) {` is not a definition)"""
    pat = re.compile(r'(?<![\w:.>])' + re.escape(name) + r'\s*\(')
    for m in pat.finditer(src):
        p_open = m.end() - 1
        p_close = match_close(src, p_open, '(', ')')
        if p_close < 0:
            continue
        k = p_close + 1
        while k < len(src) and src[k] not in '{;':
            k += 1
        if k >= len(src) or src[k] == ';':
            continue
        between = src[p_close + 1:k]
        if not re.fullmatch(r'\s*(const\s*)?(noexcept\s*)?(->\s*[\w\s:<>&*,]+)?\s*', between):
            continue
        # what precedes the name must look like a return type (an identifier, `&`, `*`, `>`), not an operator or `=`
        before = src[:m.start()].rstrip()
        if not before or not re.search(r'[\w&*>]$', before) or re.search(r'\b(return|else|case)$', before):
            continue
        b_close = match_close(src, k)
        if b_close < 0:
            continue
        return src[k + 1:b_close]
    return None


def atomic_sites_inlined(src: str, body: str, depth: int = 2, seen=()):
    """atomic call sites of `body` in textual order, with the sites of file-local helper functions it calls spliced in at
    the call (one or two levels): extracting a loop into a helper keeps a function's skeleton"""
    items = []
    for m in _site_pat.finditer(body):
        items.append((m.start(), 'site'))
    direct = atomic_sites(body)
    pos_sites = [(m.start(), s) for m, s in zip(_site_pat.finditer(body), direct)]
    out = list(pos_sites)
    if depth > 0:
        for m in _CALL_PAT.finditer(body):
            name = m.group(1)
            if name in _NOT_HELPERS or name in seen or name in ATOMIC_METHODS:
                continue
            hb = find_free_function(src, name)
            if hb is None:
                continue
            sub = atomic_sites_inlined(src, hb, depth - 1, tuple(seen) + (name,))
            for i, s2 in enumerate(sub):
                out.append((m.start() + i * 1e-6, s2))
    out.sort(key=lambda t: t[0])
    return [s2 for _, s2 in out]
