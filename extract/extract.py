#!/usr/bin/env python3
"""Tie G: regenerate the data part of the Lean models from /repo's current sources.

  * constants: a tiny C++ program that #includes the repository's own .cpp / .hpp files and
    prints the constants, so the C++ compiler (not this script) evaluates them;
  * per call-site memory orders: textual scan of each modelled function (cxxscan.py);
  * class facts for the Zipf generators.

Output: lean/CppUtil/Gen/*.lean (rewritten only when the content changes) and
.build/gen/status.json (what was recognised, what was not, content hash).
Exit code 0 even when a function is not recognised: the status file says so and the
checks treat that as a broken tie (DESIGN.md section 2.3)."""
import hashlib
import json
import os
import re
import subprocess
import sys

HERE = os.path.dirname(os.path.abspath(__file__))
VERIF = os.path.dirname(HERE)
REPO = os.environ.get('VERIF_REPO', '/repo')
GEN_DIR = os.path.join(VERIF, 'lean', 'CppUtil', 'Gen')
BUILD = os.path.join(VERIF, '.build', 'gen')

sys.path.insert(0, HERE)
import cxxscan  # noqa: E402

MO_LEAN = {'rlx': '.rlx', 'acq': '.acq', 'rel': '.rel', 'acqrel': '.acqrel', 'sc': '.sc'}


def read(path):
    with open(path) as f:
        return f.read()


def write_if_changed(path, content):
    os.makedirs(os.path.dirname(path), exist_ok=True)
    if os.path.exists(path) and read(path) == content:
        return False
    with open(path, 'w') as f:
        f.write(content)
    return True


# ---------------------------------------------------------------- constants (compiled)

CONST_PROG = r'''
#include <cstdio>
#include <cstdint>
#include <cstddef>
#define DBGROUP_MAX_THREAD_NUM 4
#define CPP_UTILITY_SPINLOCK_RETRY_NUM 1
#define CPP_UTILITY_BACKOFF_TIME 0
%(includes)s
static void P(const char *n, unsigned long long v) { std::printf("%%s %%llu\n", n, v); }
int main() {
%(body)s
  return 0;
}
'''


def compile_consts(tag, includes, names, prefix='', fallbacks=None, _absent=()):
    """Compile+run a program printing the given constant names; returns dict or error string.
    `fallbacks`: helper constants that are mere combinations of others (masks); when the source no longer declares one
    (a maintainer removed an unused helper), its defining expression over the remaining constants is evaluated instead."""
    os.makedirs(BUILD, exist_ok=True)
    src = os.path.join(BUILD, f'consts_{tag}.cpp')
    exe = os.path.join(BUILD, f'consts_{tag}')
    fallbacks = fallbacks or {}
    body = '\n'.join(f'  P("{n}", static_cast<unsigned long long>({fallbacks[n] if n in _absent else prefix + n}));' for n in names)
    prog = CONST_PROG % {'includes': '\n'.join(f'#include "{i}"' for i in includes), 'body': body}
    key = hashlib.sha256((prog + ''.join(read(i) for i in includes)).encode()).hexdigest()
    cache = os.path.join(BUILD, f'consts_{tag}.json')
    if os.path.exists(cache):
        try:
            c = json.load(open(cache))
            if c.get('key') == key:
                return c['vals']
        except Exception:
            pass
    with open(src, 'w') as f:
        f.write(prog)
    r = subprocess.run(['g++', '-std=c++20', '-O0', '-w', f'-I{REPO}/include', src, '-o', exe, '-pthread'],
                       capture_output=True, text=True)
    if r.returncode != 0:
        m = re.search(r"[‘'`](\w+)[’'] was not declared in this scope", r.stderr)
        if m and m.group(1) in fallbacks and m.group(1) not in _absent:
            return compile_consts(tag, includes, names, prefix, fallbacks, tuple(_absent) + (m.group(1),))
        return 'compile failed: ' + r.stderr[-2000:]
    r = subprocess.run([exe], capture_output=True, text=True)
    if r.returncode != 0:
        return 'run failed'
    vals = {}
    for line in r.stdout.splitlines():
        n, v = line.split()
        vals[n] = int(v)
    json.dump({'key': key, 'vals': vals}, open(cache, 'w'))
    return vals


def lean_word(v):
    return f'0x{v:016x}#64'


# ---------------------------------------------------------------- order tables

RMW_KINDS = ('fadd', 'fsub', 'fxor', 'for', 'fand', 'xchg')


def ops_match(expected, got):
    """the skeleton of a function: loads, stores, CAS and fences must be what the model has; a read-modify-write may be
    spelled with any fetch_* / exchange (which one, and its operand, is compared value by value at run time)"""
    if len(expected) != len(got):
        return False
    for e, g in zip(expected, got):
        if e == g:
            continue
        if e in RMW_KINDS and g in RMW_KINDS:
            continue
        if e == 'RMW' and g in RMW_KINDS + ('store',):
            continue
        return False
    return True


def scan_orders(path, cls, table, status):
    """table: list of (function qualname suffix, expected op list, [names for each order slot]).
    Returns dict slot-name -> order, using the canonical default when the shape is not recognised."""
    src = cxxscan.strip_comments(read(path))
    out = {}
    for fn, ops, slots, defaults in table:
        q = f'{cls}::{fn}'
        found = cxxscan.find_function(src, q)
        ok = False
        sites = []
        if found:
            sites = cxxscan.atomic_sites_inlined(src, found[1])
            if ops_match(ops, [s['op'] for s in sites]):
                ok = True
        status['functions'][q] = {
            'recognised': ok,
            'sites': [{'op': s['op'], 'orders': s['orders'], 'recv': s['recv']} for s in sites],
            'expected_ops': ops,
        }
        if ok:
            flat = []
            for s in sites:
                flat.extend(s['orders'])
            for name, o in zip(slots, flat):
                out[name] = o
        else:
            status['unrecognised'].append(q)
            for name, o in zip(slots, defaults):
                out[name] = o
    return out


def mode_fun(d, prefix, suffix):
    return ('fun m => match m with | .S => %s | .SIX => %s | .X => %s' %
            (MO_LEAN[d[f'{prefix}S{suffix}']], MO_LEAN[d[f'{prefix}SIX{suffix}']], MO_LEAN[d[f'{prefix}X{suffix}']]))


PESS_TABLE = [
    ('LockS', ['load', 'cas'], ['lockS.load', 'lockS.casS', 'lockS.casF'], ['rlx', 'acq', 'rlx']),
    ('LockSIX', ['load', 'cas'], ['lockSIX.load', 'lockSIX.casS', 'lockSIX.casF'], ['rlx', 'acq', 'rlx']),
    ('LockX', ['load', 'cas'], ['lockX.load', 'lockX.casS', 'lockX.casF'], ['rlx', 'acq', 'rlx']),
    ('UnlockS', ['fsub'], ['relS'], ['rel']),
    ('UnlockSIX', ['fxor'], ['relSIX'], ['rel']),
    ('UnlockX', ['store'], ['relX'], ['rel']),
    ('SIXGuard::UpgradeToX', ['load', 'cas'], ['upg.load', 'upg.casS', 'upg.casF'], ['rlx', 'acq', 'rlx']),
    ('XGuard::DowngradeToSIX', ['store'], ['dng'], ['rel']),
]

OPT_TABLE = PESS_TABLE + [
    ('GetVersion', ['load'], ['gv.load'], ['acq']),
    ('PrepareRead', ['load', 'load', 'cas'], ['prep.load1', 'prep.load2', 'prep.casS', 'prep.casF'],
     ['acq', 'acq', 'acq', 'rlx']),
    ('OptGuard::VerifyVersion', ['fence', 'load'], ['vf.fence', 'vf.load'], ['acq', 'rlx']),
    ('CompositeGuard::VerifyVersion', ['fence', 'load'], ['cvf.fence', 'cvf.load'], ['acq', 'rlx']),
    ('OptGuard::TryLockS', ['load', 'cas'], ['tryS.load', 'tryS.casS', 'tryS.casF'], ['acq', 'acq', 'rlx']),
    ('OptGuard::TryLockSIX', ['load', 'cas'], ['trySIX.load', 'trySIX.casS', 'trySIX.casF'], ['acq', 'acq', 'rlx']),
    ('OptGuard::TryLockX', ['load', 'cas'], ['tryX.load', 'tryX.casS', 'tryX.casF'], ['acq', 'acq', 'rlx']),
]


def worders_lean(d, opt):
    lines = ['{',
             f'    lockLoad := {mode_fun(d, "lock", ".load")}',
             f'    lockCasS := {mode_fun(d, "lock", ".casS")}',
             f'    lockCasF := {mode_fun(d, "lock", ".casF")}',
             f'    relS := {MO_LEAN[d["relS"]]}',
             f'    relSIX := {MO_LEAN[d["relSIX"]]}',
             f'    relX := {MO_LEAN[d["relX"]]}',
             f'    upgLoad := {MO_LEAN[d["upg.load"]]}',
             f'    upgCasS := {MO_LEAN[d["upg.casS"]]}',
             f'    upgCasF := {MO_LEAN[d["upg.casF"]]}',
             f'    dng := {MO_LEAN[d["dng"]]}']
    if opt:
        lines += [
            f'    gvLoad := {MO_LEAN[d["gv.load"]]}',
            f'    prepLoad1 := {MO_LEAN[d["prep.load1"]]}',
            f'    prepLoad2 := {MO_LEAN[d["prep.load2"]]}',
            f'    prepCasS := {MO_LEAN[d["prep.casS"]]}',
            f'    prepCasF := {MO_LEAN[d["prep.casF"]]}',
            f'    vfFence := fun c => if c then {MO_LEAN[d["cvf.fence"]]} else {MO_LEAN[d["vf.fence"]]}',
            f'    vfLoad := fun c => if c then {MO_LEAN[d["cvf.load"]]} else {MO_LEAN[d["vf.load"]]}',
            f'    tryLoad := {mode_fun(d, "try", ".load")}',
            f'    tryCasS := {mode_fun(d, "try", ".casS")}',
            f'    tryCasF := {mode_fun(d, "try", ".casF")}']
    else:
        # TryLock* / PrepareRead do not exist in this class: the slots are never executed
        lines += ['    tryCasS := fun _ => .acq', '    prepCasS := .acq']
    lines.append('  }')
    return '\n'.join(lines)


HEADER = '-- GENERATED by extract/extract.py from the sources under /repo on every check run. Do not edit.\n'


def gen_pess(status):
    names = ['kNoLocks', 'kSLock', 'kSIXLock', 'kXLock', 'kXMask']
    vals = compile_consts('pess', [f'{REPO}/src/lock/pessimistic_lock.cpp'], names,
                          fallbacks={'kXMask': '(kXLock | kSIXLock)', 'kSMask': '(~0ULL ^ (kXLock | kSIXLock))'})
    if isinstance(vals, str):
        status['errors'].append('pess constants: ' + vals)
        vals = {'kNoLocks': 0, 'kSLock': 1, 'kSIXLock': 1 << 62, 'kXLock': 1 << 63, 'kXMask': 3 << 62}
    status['constants']['pess'] = vals
    d = scan_orders(f'{REPO}/src/lock/pessimistic_lock.cpp', 'PessimisticLock', PESS_TABLE, status)
    status['orders']['pess'] = d
    body = HEADER + 'import CppUtil.Model.WInst\nnamespace CppUtil.Gen\nopen CppUtil CppUtil.WLock\n\n'
    body += 'def pessConsts : PessConsts := {\n' + ',\n'.join(
        f'    {n} := {lean_word(vals[n])}' for n in names) + ' }\n\n'
    body += 'def pessOrders : WOrders :=\n  ' + worders_lean(d, False) + '\n\n'
    body += 'def pess (retry : Nat) : WParams := pessParams pessConsts pessOrders retry\n\nend CppUtil.Gen\n'
    return write_if_changed(os.path.join(GEN_DIR, 'Pess.lean'), body)


def gen_opt(status):
    names = ['kNoLocks', 'kSLock', 'kSIXLock', 'kXLock', 'kVersionMask', 'kAllLockMask', 'kXMask', 'kSMask',
             'kSAndSIXMask', 'kXAndVersionMask']
    vals = compile_consts('opt', [f'{REPO}/src/lock/optimistic_lock.cpp'], names, fallbacks={
        'kAllLockMask': '(~0ULL ^ kVersionMask)', 'kXMask': '(kXLock | kSIXLock)',
        'kSMask': '((~0ULL ^ kVersionMask) ^ (kXLock | kSIXLock))', 'kSAndSIXMask': '((~0ULL ^ kVersionMask) ^ kXLock)',
        'kXAndVersionMask': '(kXLock | kVersionMask)'})
    if isinstance(vals, str):
        status['errors'].append('opt constants: ' + vals)
        vals = {'kNoLocks': 0, 'kSLock': 1 << 32, 'kSIXLock': 1 << 62, 'kXLock': 1 << 63,
                'kVersionMask': (1 << 32) - 1, 'kAllLockMask': ((1 << 64) - 1) ^ ((1 << 32) - 1),
                'kXMask': 3 << 62, 'kSMask': ((1 << 62) - 1) ^ ((1 << 32) - 1),
                'kSAndSIXMask': ((1 << 63) - 1) ^ ((1 << 32) - 1), 'kXAndVersionMask': (1 << 63) | ((1 << 32) - 1)}
    status['constants']['opt'] = vals
    d = scan_orders(f'{REPO}/src/lock/optimistic_lock.cpp', 'OptimisticLock', OPT_TABLE, status)
    status['orders']['opt'] = d
    body = HEADER + 'import CppUtil.Model.WInst\nnamespace CppUtil.Gen\nopen CppUtil CppUtil.WLock\n\n'
    body += 'def optConsts : OptConsts := {\n' + ',\n'.join(
        f'    {n} := {lean_word(vals[n])}' for n in names) + ' }\n\n'
    body += 'def optOrders : WOrders :=\n  ' + worders_lean(d, True) + '\n\n'
    body += 'def opt (retry : Nat) : WParams := optParams optConsts optOrders retry\n\nend CppUtil.Gen\n'
    return write_if_changed(os.path.join(GEN_DIR, 'Opt.lean'), body)


MCS_ORDER_SLOTS = {
    # function -> (expected ops, slot names, defaults)
    'LockS': (['store', 'load', 'cas', 'cas', 'load', 'load', 'load'],
              ['lockS.store', 'lockS.load', 'lockS.casJoinS', 'lockS.casJoinF', 'lockS.casNewS', 'lockS.casNewF',
               'lockS.spinLock', 'lockS.spinNext', 'lockS.spinNode'],
              ['rlx', 'rlx', 'acq', 'rlx', 'acq', 'rlx', 'acq', 'acq', 'acq']),
    'LockSIX': (['store', 'xchg', 'RMW', 'fadd', 'load'],
                ['lockSIX.store', 'lockSIX.xchg', 'lockSIX.publish', 'lockSIX.link', 'lockSIX.spin'],
                ['rlx', 'acq', 'rlx', 'rel', 'acq']),
    'LockX': (['store', 'xchg', 'RMW', 'fadd', 'load'],
              ['lockX.store', 'lockX.xchg', 'lockX.publish', 'lockX.link', 'lockX.spin'],
              ['rlx', 'acq', 'rlx', 'rel', 'acq']),
    'UnlockS': (['load', 'load', 'cas', 'cas', 'load', 'fsub'],
                ['unlockS.load', 'unlockS.lockLoad', 'unlockS.casDecS', 'unlockS.casDecF', 'unlockS.casNullS',
                 'unlockS.casNullF', 'unlockS.spinNext', 'unlockS.handoff'],
                ['acq', 'rlx', 'rel', 'rlx', 'rel', 'rlx', 'acq', 'rel']),
    'UnlockSIX': (['load', 'load', 'cas', 'cas', 'load', 'fxor'],
                  ['unlockSIX.load', 'unlockSIX.lockLoad', 'unlockSIX.casDecS', 'unlockSIX.casDecF',
                   'unlockSIX.casNullS', 'unlockSIX.casNullF', 'unlockSIX.spinNext', 'unlockSIX.handoff'],
                  ['acq', 'rlx', 'rel', 'rlx', 'rel', 'rlx', 'acq', 'rel']),
    'UnlockX': (['load', 'load', 'cas', 'cas', 'load', 'fxor'],
                ['unlockX.load', 'unlockX.lockLoad', 'unlockX.casDecS', 'unlockX.casDecF', 'unlockX.casNullS',
                 'unlockX.casNullF', 'unlockX.spinNext', 'unlockX.handoff'],
                ['acq', 'rlx', 'rel', 'rlx', 'rel', 'rlx', 'acq', 'rel']),
    'SIXGuard::UpgradeToX': (['load', 'load', 'cas', 'load', 'fxor'],
                             ['upg.load', 'upg.lockLoad', 'upg.casS', 'upg.casF', 'upg.spinNext', 'upg.handoff'],
                             ['acq', 'rlx', 'acq', 'rlx', 'acq', 'acq']),
    'XGuard::DowngradeToSIX': (['load', 'load', 'cas', 'load', 'fxor'],
                               ['dng.load', 'dng.lockLoad', 'dng.casS', 'dng.casF', 'dng.spinNext', 'dng.handoff'],
                               ['rlx', 'rlx', 'rel', 'rlx', 'rlx', 'rel']),
}


def gen_mcs(status):
    names = ['kNull', 'kNoLocks', 'kSLock', 'kSIXLock', 'kXLock', 'kPtrMask', 'kLockMask', 'kXMask', 'kSMask']
    vals = compile_consts('mcs', [f'{REPO}/src/lock/mcs_lock.cpp'], names)
    if isinstance(vals, str):
        status['errors'].append('mcs constants: ' + vals)
        vals = {'kNull': 0, 'kNoLocks': 0, 'kSLock': 1 << 47, 'kSIXLock': 1 << 62, 'kXLock': 1 << 63,
                'kPtrMask': (1 << 47) - 1, 'kLockMask': ((1 << 64) - 1) ^ ((1 << 47) - 1), 'kXMask': 3 << 62,
                'kSMask': ((1 << 62) - 1) ^ ((1 << 47) - 1)}
    status['constants']['mcs'] = vals
    src = cxxscan.strip_comments(read(f'{REPO}/src/lock/mcs_lock.cpp'))
    d = {}
    publish_kind = {}
    for fn, (ops, slots, defaults) in MCS_ORDER_SLOTS.items():
        q = f'MCSLock::{fn}'
        found = cxxscan.find_function(src, q)
        ok = False
        sites = []
        if found:
            sites = cxxscan.atomic_sites_inlined(src, found[1])
            got = [s_['op'] for s_ in sites]
            if ops_match(ops, got):
                ok = True
        status['functions'][q] = {'recognised': ok, 'expected_ops': ops,
                                  'sites': [{'op': s_['op'], 'orders': s_['orders'], 'recv': s_['recv']} for s_ in sites]}
        if ok:
            flat = []
            for s_ in sites:
                flat.extend(s_['orders'])
            for name, o in zip(slots, flat):
                d[name] = o
            for e, s_ in zip(ops, sites):
                if e == 'RMW':
                    publish_kind[fn] = s_['op']
        else:
            status['unrecognised'].append(q)
            for name, o in zip(slots, defaults):
                d[name] = o
            if fn in ('LockSIX', 'LockX'):
                publish_kind[fn] = 'fxor'
    status['orders']['mcs'] = d
    status['facts']['mcs_publish_op'] = publish_kind
    body = HEADER + 'import CppUtil.Model.McsParams\nnamespace CppUtil.Gen\nopen CppUtil CppUtil.Mcs\n\n'
    body += 'def mcsConsts : McsConsts := {\n' + ',\n'.join(f'    {n} := {lean_word(vals[n])}' for n in names) + ' }\n\n'
    body += 'def mcsOrders : String → MO\n'
    for k in sorted(d):
        body += f'  | "{k}" => {MO_LEAN[d[k]]}\n'
    body += '  | _ => .sc\n\n'
    body += '/-- how LockSIX / LockX publish the predecessor flags into their own node: a plain store\n'
    body += '    (which can overwrite a successor link) or a read-modify-write that preserves the pointer -/\n'
    body += f'def mcsPublishIsStore : Bool := {"true" if publish_kind.get("LockX") == "store" or publish_kind.get("LockSIX") == "store" else "false"}\n\n'
    body += 'end CppUtil.Gen\n'
    return write_if_changed(os.path.join(GEN_DIR, 'Mcs.lean'), body)


THREAD_SITES = [
    # (file, class-qualified function, expected ops, slot names, defaults)
    ('src/thread/component/epoch.cpp', 'Epoch::GetCurrentEpoch', ['load'], ['epoch.getCurrent'], ['acq']),
    ('src/thread/component/epoch.cpp', 'Epoch::GetProtectedEpoch', ['load'], ['epoch.getProtected'], ['rlx']),
    ('src/thread/component/epoch.cpp', 'Epoch::EnterEpoch', ['store'], ['epoch.enter'], ['rlx']),
    ('src/thread/component/epoch.cpp', 'Epoch::LeaveEpoch', ['store'], ['epoch.leave'], ['rlx']),
    ('src/thread/epoch_manager.cpp', 'EpochManager::GetCurrentEpoch', ['load'], ['mgr.getCurrent'], ['rlx']),
    ('src/thread/epoch_manager.cpp', 'EpochManager::GetMinEpoch', ['load'], ['mgr.getMin'], ['rlx']),
    ('src/thread/epoch_manager.cpp', 'EpochManager::ForwardGlobalEpoch', ['load', 'store', 'store'],
     ['fwd.load', 'fwd.storeGlobal', 'fwd.storeMin'], ['rlx', 'rel', 'rlx']),
    ('src/thread/id_manager.cpp', 'IDManager::GetHeartBeater', ['load', 'xchg'], ['id.load', 'id.xchg'], ['rlx', 'rlx']),
    ('src/thread/id_manager.cpp', 'IDManager::HeartBeater::~HeartBeater', ['store'], ['id.release'], ['rlx']),
]


# a second accepted shape per function: `EnterEpoch` may load the global epoch itself instead of through the accessor
# `Epoch::GetCurrentEpoch` (the model has one load followed by one store either way; the load's order then comes from here -
# `EnterEpoch` is the only modelled user of that load)
THREAD_SITES_ALT = {
    'Epoch::EnterEpoch': (['load', 'store'], ['epoch.getCurrent', 'epoch.enter']),
}


def gen_thread(status):
    names = ['kCapacity', 'kInitialEpoch', 'kMinEpoch']
    vals = compile_consts('thread', [f'{REPO}/include/dbgroup/thread/epoch_manager.hpp'], names,
                          prefix='::dbgroup::thread::EpochManager::')
    if isinstance(vals, str):
        status['errors'].append('thread constants: ' + vals)
        vals = {'kCapacity': 256, 'kInitialEpoch': 256, 'kMinEpoch': 0}
    status['constants']['thread'] = vals
    d = {}
    for path, q, ops, slots, defaults in THREAD_SITES:
        src = cxxscan.strip_comments(read(os.path.join(REPO, path)))
        found = cxxscan.find_function(src, q)
        ok = False
        sites = []
        if found:
            sites = cxxscan.atomic_sites_inlined(src, found[1])
            ok = ops_match(ops, [s_['op'] for s_ in sites])
            if not ok and q in THREAD_SITES_ALT and ops_match(THREAD_SITES_ALT[q][0], [s_['op'] for s_ in sites]):
                ok = True
                ops, slots = THREAD_SITES_ALT[q]
        status['functions'][q] = {'recognised': ok, 'expected_ops': ops,
                                  'sites': [{'op': s_['op'], 'orders': s_['orders'], 'recv': s_['recv']} for s_ in sites]}
        if ok:
            flat = []
            for s_ in sites:
                flat.extend(s_['orders'])
            for name, o in zip(slots, flat):
                d[name] = o
        else:
            status['unrecognised'].append(q)
            for name, o in zip(slots, defaults):
                d[name] = o
    status['orders']['thread'] = d
    # exit path: is the heartbeat dropped (id_.reset() / id_ = ...) before the reservation flag is cleared?
    src = cxxscan.strip_comments(read(os.path.join(REPO, 'src/thread/id_manager.cpp')))
    found = cxxscan.find_function(src, 'IDManager::HeartBeater::~HeartBeater')
    expire_first = False
    if found:
        body = found[1]
        m_reset = re.search(r'\bid_\s*(\.\s*reset\s*\(|=(?!=))', body)
        m_store = re.search(r'\.\s*store\s*\(', body)
        if m_reset and m_store and m_reset.start() < m_store.start():
            expire_first = True
    status['facts']['heartbeat_expires_before_release'] = expire_first
    # the small accessors of HeartBeater, by shape: `HasID` is "the ID pointer is non-null" (any strong reference
    # counts - a client may promote the weak heartbeat), `GetID` dereferences it, `GetHeartBeat` is a weak reference to
    # it, `SetID` makes a fresh shared value
    def body_of(fn):
        f = cxxscan.find_function(src, fn)
        return re.sub(r'\s+', '', f[1]) if f else ''
    has_id = body_of('IDManager::HeartBeater::HasID')
    shapes = {
        'has_id_nonnull': has_id in ('returnid_.use_count()>0;', 'returnid_.use_count()!=0;', 'returnid_!=nullptr;',
                                     'returnstatic_cast<bool>(id_);', 'returnbool(id_);', 'return!!id_;'),
        'get_id_deref': body_of('IDManager::HeartBeater::GetID') == 'return*id_;',
        'get_heartbeat_weak': body_of('IDManager::HeartBeater::GetHeartBeat') in ('returnstd::weak_ptr<size_t>{id_};', 'returnid_;',
                                                                                  'returnstd::weak_ptr<size_t>(id_);'),
        'set_id_fresh': body_of('IDManager::HeartBeater::SetID') in ('id_=std::make_shared<size_t>(id);',),
    }
    status['facts']['heartbeater_accessors'] = shapes
    accessors_ok = all(shapes.values())
    body = HEADER + 'import CppUtil.Model.Epoch\nnamespace CppUtil.Gen\nopen CppUtil\n\n'
    body += ('def epochConsts : Epoch.Consts := { kCapacity := %d, kInitialEpoch := %d, kMinEpoch := %d }\n\n'
             % (vals['kCapacity'], vals['kInitialEpoch'], vals['kMinEpoch']))
    body += 'def threadOrders : String → MO\n'
    for k_ in sorted(d):
        body += f'  | "{k_}" => {MO_LEAN[d[k_]]}\n'
    body += '  | _ => .sc\n\n'
    body += '/-- `~HeartBeater` drops the heartbeat before it clears the reservation flag -/\n'
    body += f'def heartbeatExpiresFirst : Bool := {"true" if expire_first else "false"}\n\n'
    body += ('/-- the HeartBeater accessors have the modelled shape: `HasID` = the ID pointer is non-null, `GetID` dereferences it, '
             '`GetHeartBeat` is a weak reference to it, `SetID` stores a fresh shared value -/\n')
    body += f'def heartBeaterAccessorsAsModelled : Bool := {"true" if accessors_ok else "false"}\n\nend CppUtil.Gen\n'
    return write_if_changed(os.path.join(GEN_DIR, 'Thread.lean'), body)


def count_ctor_checks(c):
    """number of parameterised constructors of the two generator classes that reject `max < min` by throwing, directly or
    through a file-local helper they call with (min, max) / (max, min)"""
    n = 0
    for cls in ('ZipfDistribution', 'ApproxZipfDistribution'):
        for params, body in cxxscan.find_functions(c, f'{cls}<IntType>::{cls}'):
            if 'min' not in params or 'max' not in params:
                continue
            ok = bool(re.search(r'if\s*\(\s*max\s*<\s*min\s*\)\s*\{?\s*throw', body)) or \
                bool(re.search(r'if\s*\(\s*min\s*>\s*max\s*\)\s*\{?\s*throw', body))
            if not ok:
                for m in re.finditer(r'(?<![\w.>:])([A-Za-z_]\w*)\s*\(\s*(\w+)\s*,\s*(\w+)\s*\)', body):
                    name, a1, a2 = m.groups()
                    if {a1, a2} != {'min', 'max'}:
                        continue
                    hb = cxxscan.find_free_function(c, name)
                    hm = re.search(r'(?<![\w:.>])' + re.escape(name) + r'\s*\(([^)]*)\)', c)
                    if hb is None or hm is None:
                        continue
                    ps = [re.sub(r'.*[\s&*]', '', x.strip()) for x in hm.group(1).split(',')]
                    if len(ps) != 2:
                        continue
                    mp = {ps[0]: a1, ps[1]: a2}
                    for lt in re.finditer(r'if\s*\(\s*(\w+)\s*([<>])\s*(\w+)\s*\)\s*\{?\s*throw', hb):
                        x, op, y = lt.groups()
                        if x in mp and y in mp:
                            lo, hi = (mp[x], mp[y]) if op == '<' else (mp[y], mp[x])
                            if (lo, hi) == ('max', 'min'):
                                ok = True
            n += 1 if ok else 0
    return n


def gen_zipf(status):
    hdr = read(f'{REPO}/include/dbgroup/random/zipf.hpp')
    src = read(f'{REPO}/src/random/zipf.cpp')
    vals = compile_consts('zipf', [f'{REPO}/include/dbgroup/random/zipf.hpp'], ['kExactBinNum'],
                          prefix='::dbgroup::random::ApproxZipfDistribution<uint64_t>::')
    if isinstance(vals, str):
        # kExactBinNum is private: read it textually
        m = re.search(r'kExactBinNum\s*=\s*(\d+)', cxxscan.strip_comments(hdr))
        if m:
            vals = {'kExactBinNum': int(m.group(1))}
        else:
            status['errors'].append('zipf constants: ' + vals)
            vals = {'kExactBinNum': 100}
    m = re.search(r'constexpr\s+size_t\s+kSkipSize\s*=\s*(\d+)', cxxscan.strip_comments(src))
    if m:
        vals['kSkipSize'] = int(m.group(1))
    else:
        status['errors'].append('zipf: kSkipSize not found')
        vals['kSkipSize'] = 100
    status['constants']['zipf'] = vals
    # class facts (C19): operator() is const; the only static / thread_local / mutable object in the classes is the
    # uniform_real_distribution; the constructors contain the `max < min` throw
    h = cxxscan.strip_comments(hdr)
    facts = {}
    ops = re.findall(r'operator\(\)\s*\([^)]*\)\s*(const)?', h)
    facts['operator_call_const'] = bool(ops) and all(o == 'const' for o in ops)
    statics = re.findall(r'\b(?:thread_local|static|mutable)\b[^;\n]*', h)
    statics = [x.strip() for x in statics if 'static_assert' not in x and 'static_cast' not in x and 'constexpr' not in x]
    facts['static_or_mutable_objects'] = statics
    facts['only_uniform_dist_static'] = all('uniform_real_distribution' in x for x in statics)
    # data members (declarations `T name_{...};` / `T name_;` / `T name_ = ...;` at class scope): value semantics means
    # no pointer, reference, view, iterator or smart-pointer member (a defaulted copy is then a deep copy)
    members = re.findall(r'^\s*((?:const\s+)?[\w:]+(?:<[^;{}()]*>)?(?:\s*const)?\s*[\*&]*)\s*(\w+_)\s*(?:\{[^;]*\}|=[^;]*)?;', h, re.M)
    facts['data_members'] = sorted({f'{t.strip()} {n}' for t, n in members})
    indirect = [m for m in facts['data_members'] if re.search(r'[\*&]|span|string_view|_ptr|reference_wrapper|iterator', m)]
    facts['indirect_members'] = indirect
    facts['value_members_only'] = (not indirect) and len(facts['data_members']) >= 8
    c = cxxscan.strip_comments(src)
    facts['ctor_checks'] = count_ctor_checks(c)
    status['facts']['zipf'] = facts
    body = HEADER + 'namespace CppUtil.Gen\n\n'
    body += f'def zipfExactBinNum : Nat := {vals["kExactBinNum"]}\n'
    body += f'def zipfSkipSize : Nat := {vals["kSkipSize"]}\n'
    body += f'/-- `operator()` of both generator classes is `const` -/\ndef zipfCallConst : Bool := {"true" if facts["operator_call_const"] else "false"}\n'
    body += ('/-- the only static / thread_local / mutable object declared in the classes is the uniform distribution -/\n'
             f'def zipfOnlyDistStatic : Bool := {"true" if facts["only_uniform_dist_static"] else "false"}\n')
    body += ('/-- every data member of the two classes is held by value (no pointer, reference, view, iterator or smart pointer): '
             'the defaulted copy / move operations are deep -/\n'
             f'def zipfValueMembersOnly : Bool := {"true" if facts["value_members_only"] else "false"}\n')
    body += f'/-- number of constructors that reject `max < min` by throwing -/\ndef zipfCtorChecks : Nat := {facts["ctor_checks"]}\n\nend CppUtil.Gen\n'
    return write_if_changed(os.path.join(GEN_DIR, 'Zipf.lean'), body)


GENERATORS = [gen_pess, gen_opt, gen_mcs, gen_thread, gen_zipf]


def main():
    status = {'functions': {}, 'unrecognised': [], 'errors': [], 'constants': {}, 'orders': {}, 'facts': {},
              'changed': []}
    for g in GENERATORS:
        try:
            if g(status):
                status['changed'].append(g.__name__)
        except Exception as e:  # extractor bug or source it cannot read: a broken tie, not a crash
            status['errors'].append(f'{g.__name__}: {type(e).__name__}: {e}')
    h = hashlib.sha256()
    for fn in sorted(os.listdir(GEN_DIR)):
        if fn.endswith('.lean'):
            h.update(fn.encode())
            h.update(read(os.path.join(GEN_DIR, fn)).encode())
    status['gen_hash'] = h.hexdigest()
    os.makedirs(BUILD, exist_ok=True)
    with open(os.path.join(BUILD, 'status.json'), 'w') as f:
        json.dump(status, f, indent=1, sort_keys=True)
    if '--print' in sys.argv:
        print(json.dumps(status, indent=1, sort_keys=True))
    return 0


if __name__ == '__main__':
    sys.exit(main())
