"""Shared machinery of the checks: extraction, Lean build + audit, harness builds (content-hash
keyed), running scenarios through harness and driver, evidence and violation output."""
import fcntl
import hashlib
import json
import os
import re
import shutil
import subprocess
import sys
import time
from concurrent.futures import ThreadPoolExecutor

HERE = os.path.dirname(os.path.abspath(__file__))
VERIF = os.path.dirname(HERE)
REPO = os.environ.get('VERIF_REPO', '/repo')
BUILD = os.path.join(VERIF, '.build')
LEAN = os.path.join(VERIF, 'lean')
HARNESS = os.path.join(VERIF, 'harness')
EVIDENCE = os.path.join(VERIF, 'evidence')
REPLAYS = os.path.join(VERIF, 'replays')
NCPU = min(16, os.cpu_count() or 4)

ACCEPTED_AXIOMS = {'propext', 'Classical.choice', 'Quot.sound'}


class FrameworkError(Exception):
    """The framework itself failed (not a property violation)."""


def sh(cmd, **kw):
    return subprocess.run(cmd, capture_output=True, text=True, **kw)


class FileLock:
    def __init__(self, name):
        os.makedirs(BUILD, exist_ok=True)
        self.path = os.path.join(BUILD, name + '.lock')

    def __enter__(self):
        self.f = open(self.path, 'w')
        fcntl.flock(self.f, fcntl.LOCK_EX)
        return self

    def __exit__(self, *a):
        fcntl.flock(self.f, fcntl.LOCK_UN)
        self.f.close()


# ------------------------------------------------------------------ tie G: extraction

def run_extract():
    with FileLock('extract'):
        r = sh([sys.executable, os.path.join(VERIF, 'extract', 'extract.py')])
        if r.returncode != 0:
            raise FrameworkError('extractor crashed: ' + r.stderr[-2000:])
        with open(os.path.join(BUILD, 'gen', 'status.json')) as f:
            return json.load(f)


# ------------------------------------------------------------------ Lean build and audit

def lake_build(targets):
    """Build the given lake targets. Returns (ok, output)."""
    with FileLock('lake'):
        r = sh(['lake', 'build'] + list(targets), cwd=LEAN)
        return r.returncode == 0, (r.stdout + r.stderr)


_AUDIT_PAT = re.compile(r'\b(sorry|admit|native_decide|implemented_by|maxHeartbeats\s+0)\b|^\s*axiom\s|\bunsafe\s')


def strip_lean_comments(src):
    out = []
    i, n, depth = 0, len(src), 0
    while i < n:
        if src.startswith('/-', i):
            depth += 1
            i += 2
        elif depth > 0 and src.startswith('-/', i):
            depth -= 1
            i += 2
        elif depth > 0:
            if src[i] == '\n':
                out.append('\n')
            i += 1
        elif src.startswith('--', i):
            j = src.find('\n', i)
            i = n if j < 0 else j
        elif src[i] == '"':
            j = i + 1
            while j < n and src[j] != '"':
                if src[j] == '\\':
                    j += 1
                j += 1
            out.append('""')
            i = j + 1
        else:
            out.append(src[i])
            i += 1
    return ''.join(out)


def audit_sources():
    """grep the Lean sources (comments and strings stripped) for escape hatches."""
    hits = []
    for root, _, files in os.walk(os.path.join(LEAN, 'CppUtil')):
        for fn in files:
            if not fn.endswith('.lean'):
                continue
            p = os.path.join(root, fn)
            src = strip_lean_comments(open(p).read())
            for ln, line in enumerate(src.splitlines(), 1):
                if _AUDIT_PAT.search(line):
                    hits.append(f'{os.path.relpath(p, LEAN)}:{ln}: {line.strip()}')
    return hits


def print_axioms(module, theorems):
    """Return {theorem: [axioms]} via `#print axioms`."""
    os.makedirs(os.path.join(BUILD, 'audit'), exist_ok=True)
    path = os.path.join(BUILD, 'audit', module.replace('.', '_') + '.lean')
    with open(path, 'w') as f:
        f.write(f'import {module}\n')
        for t in theorems:
            f.write(f'#print axioms {t}\n')
    with FileLock('lake'):
        r = sh(['lake', 'env', 'lean', path], cwd=LEAN)
    out = r.stdout + r.stderr
    res = {}
    cur = None
    for t in theorems:
        res[t] = None
    # output format: "'name' depends on axioms: [a, b, c]" or "'name' does not depend on any axioms"
    for m in re.finditer(r"'([^']+)' (does not depend on any axioms|depends on axioms: \[([^\]]*)\])", out, re.S):
        name = m.group(1)
        axs = [] if m.group(3) is None else [a.strip() for a in m.group(3).replace('\n', ' ').split(',') if a.strip()]
        res[name] = axs
    return res, out


def leanchecker(module):
    """re-check the compiled module (and what it imports) with the toolchain's independent checker"""
    with FileLock('lake'):
        r = sh(['lake', 'env', 'leanchecker', module], cwd=LEAN, timeout=3000)
    return r.returncode == 0, (r.stdout + r.stderr)


def classify_axioms(axs):
    """split into (standard, bv_decide native, other)"""
    std, bv, other = [], [], []
    for a in axs:
        if a in ACCEPTED_AXIOMS:
            std.append(a)
        elif '._native.bv_decide.ax' in a:
            bv.append(a)
        else:
            other.append(a)
    return std, bv, other


# ------------------------------------------------------------------ harness builds

def _hash_files(paths, extra=''):
    h = hashlib.sha256()
    h.update(extra.encode())
    for p in sorted(paths):
        h.update(p.encode())
        with open(p, 'rb') as f:
            h.update(f.read())
    return h.hexdigest()[:20]


def repo_sources():
    out = []
    for sub in ('include', 'src'):
        for root, _, files in os.walk(os.path.join(REPO, sub)):
            for fn in files:
                if fn.endswith(('.hpp', '.cpp', '.h')):
                    out.append(os.path.join(root, fn))
    return out


HARNESS_KINDS = {
    # name: (main source, repo translation units, extra flags)
    'lock': ('hx_lock.cpp', ['src/lock/pessimistic_lock.cpp', 'src/lock/optimistic_lock.cpp', 'src/lock/mcs_lock.cpp'], []),
    'thread': ('hx_thread.cpp', ['src/thread/epoch_manager.cpp', 'src/thread/component/epoch.cpp',
                                 'src/thread/epoch_guard.cpp'], ['-DVERIF_SHIM_HEARTBEAT']),
    'zipf': ('hx_zipf.cpp', ['src/random/zipf.cpp'], ['NOSHIM']),
    # static-initialisation probe of IDManager: plain build (no shim), the repository's id_manager.cpp is included by the probe
    'early': ('hx_early.cpp', [], ['NOSHIM']),
}


def build_harness(kind, retry=1, nthread=4, sanitize=False):
    """Compile the harness `kind` against /repo's current working tree. Returns path of the binary.
    Raises FrameworkError with the compiler output when it does not build."""
    main_src, tus, extra = HARNESS_KINDS[kind]
    flags = ['-std=c++20', '-O1', '-g', '-w', f'-DDBGROUP_MAX_THREAD_NUM={nthread}',
             f'-DCPP_UTILITY_SPINLOCK_RETRY_NUM={retry}', '-DCPP_UTILITY_BACKOFF_TIME=0',
             f'-I{REPO}/include', f'-I{REPO}/src', f'-I{HARNESS}'] + extra
    noshim = 'NOSHIM' in flags
    if noshim:
        flags.remove('NOSHIM')
    if sanitize:
        flags += ['-fsanitize=address,undefined', '-fno-sanitize-recover=all', '-fno-omit-frame-pointer']
    hsrc = [os.path.join(HARNESS, f) for f in os.listdir(HARNESS) if f.endswith(('.cpp', '.hpp'))]
    key = _hash_files(repo_sources() + hsrc, extra=' '.join(flags) + kind)
    d = os.path.join(BUILD, 'harness', f'{kind}-{key}')
    exe = os.path.join(d, 'hx')
    with FileLock(f'harness-{kind}-{key}'):
        if os.path.exists(exe):
            os.utime(d)
            return exe
        os.makedirs(d, exist_ok=True)
        shim = os.path.join(HARNESS, 'shim.hpp')
        inc = [] if noshim else ['-include', shim]
        jobs = []
        objs = []
        for tu in tus:
            o = os.path.join(d, os.path.basename(tu).replace('.cpp', '.o'))
            objs.append(o)
            jobs.append(['g++'] + flags + inc + ['-c', os.path.join(REPO, tu), '-o', o])
        if not noshim:
            o = os.path.join(d, 'sched.o')
            objs.append(o)
            jobs.append(['g++'] + flags + ['-include', shim, '-DVERIF_SHIM_NO_RENAME', '-c',
                                           os.path.join(HARNESS, 'sched.cpp'), '-o', o])
        o = os.path.join(d, 'main.o')
        objs.append(o)
        jobs.append(['g++'] + flags + inc + ['-c', os.path.join(HARNESS, main_src), '-o', o])
        with ThreadPoolExecutor(max_workers=NCPU) as ex:
            results = list(ex.map(lambda c: sh(c), jobs))
        errs = [r.stderr for r in results if r.returncode != 0]
        if errs:
            shutil.rmtree(d, ignore_errors=True)
            raise FrameworkError('harness does not compile:\n' + '\n'.join(e[-3000:] for e in errs))
        link = ['g++'] + (['-fsanitize=address,undefined'] if sanitize else []) + ['-o', exe] + objs + ['-pthread']
        r = sh(link)
        if r.returncode != 0:
            shutil.rmtree(d, ignore_errors=True)
            raise FrameworkError('harness does not link:\n' + r.stderr[-3000:])
    prune_harness_dirs()
    return exe


def prune_harness_dirs(keep=8):
    base = os.path.join(BUILD, 'harness')
    if not os.path.isdir(base):
        return
    ds = sorted((os.path.join(base, x) for x in os.listdir(base)), key=lambda p: os.path.getmtime(p), reverse=True)
    for p in ds[keep:]:
        shutil.rmtree(p, ignore_errors=True)


def repo_builds_normally():
    """Does the repository's own library still compile (without the shim)? Used to tell a broken
    candidate tree from a tree the shim cannot follow."""
    flags = ['-std=c++20', '-O0', '-w', '-fsyntax-only', '-DDBGROUP_MAX_THREAD_NUM=4',
             '-DCPP_UTILITY_SPINLOCK_RETRY_NUM=10', '-DCPP_UTILITY_BACKOFF_TIME=10', f'-I{REPO}/include']
    srcs = [p for p in repo_sources() if p.endswith('.cpp')]
    with ThreadPoolExecutor(max_workers=NCPU) as ex:
        results = list(ex.map(lambda s: sh(['g++'] + flags + [s]), srcs))
    bad = [r.stderr[-1500:] for r in results if r.returncode != 0]
    return (not bad), '\n'.join(bad)


# ------------------------------------------------------------------ running scenarios

DRIVER = os.path.join(LEAN, '.lake', 'build', 'bin', 'cudrv')


def run_chunk(exe, text, keep_trace=False, timeout=1200, alarm=None):
    """harness | driver on one chunk of scenario text. Returns (res_lines, stats, trace_text)."""
    try:
        env = dict(os.environ, VERIF_ALARM=str(alarm)) if alarm else None
        h = subprocess.run([exe], input=text, capture_output=True, text=True, timeout=timeout, env=env)
    except subprocess.TimeoutExpired:
        raise FrameworkError('harness timed out')
    trace = h.stdout
    d = subprocess.run([DRIVER], input=trace, capture_output=True, text=True, timeout=timeout)
    if d.returncode != 0:
        raise FrameworkError('driver failed: ' + d.stderr[-2000:])
    res, stats = [], {}
    for line in d.stdout.splitlines():
        if line.startswith('RES '):
            res.append(line)
        elif line.startswith('STATS '):
            stats = json.loads(line[6:])
    return res, stats, (trace if keep_trace else '')


def parse_res(line):
    # RES <id> end=<status> steps=<n> corr=<...> ;; mon=<...>
    m = re.match(r'RES (\S+) end=(\S+)(?: [^ ]*=\S+)*? steps=(\d+) corr=(.*?) ;; mon=(.*?)(?: ;; hb=(.*))?$', line)
    if not m:
        return {'id': '?', 'end': '?', 'steps': 0, 'corr': 'unparsed: ' + line, 'mon': '?', 'hb': 'ok'}
    m2 = re.search(r' proto=(\S+) steps=', line)
    return {'id': m.group(1), 'end': m.group(2), 'steps': int(m.group(3)), 'corr': m.group(4), 'mon': m.group(5),
            'hb': m.group(6) or 'ok', 'proto': m2.group(1) if m2 else ''}


def merge_stats(a, b):
    out = dict(a)
    for k, v in b.items():
        if isinstance(v, dict):
            d = dict(out.get(k, {}))
            for kk, vv in v.items():
                d[kk] = d.get(kk, 0) + vv
            out[k] = d
        elif k.startswith('max_'):
            out[k] = max(out.get(k, 0), v)
        else:
            out[k] = out.get(k, 0) + v
    return out


def run_scenarios(exe, scenarios, jobs=NCPU):
    """scenarios: list of scenario texts (each ending with GO). Returns (results by id, stats)."""
    if not scenarios:
        return {}, {}
    n = max(1, min(jobs, len(scenarios)))
    chunks = ['\n'.join(scenarios[i::n]) + '\n' for i in range(n)]
    with ThreadPoolExecutor(max_workers=n) as ex:
        outs = list(ex.map(lambda t: run_chunk(exe, t), chunks))
    results, stats = {}, {}
    for res, st, _ in outs:
        for line in res:
            r = parse_res(line)
            results[r['id']] = r
        stats = merge_stats(stats, st)
    # a scenario that hit the 20 s wall-clock guard (or was skipped after two such hits in its chunk) is run again on
    # its own with a much longer guard before it counts as a hang: the guard measures wall-clock time, and a loaded
    # machine must not turn into a reported non-termination
    byid = {s_.split()[1]: s_ for s_ in scenarios}
    again = [sid for sid, r in results.items() if r['end'] in ('hang', 'skipped')] + [sid for sid in byid if sid not in results]
    for sid in again[:2]:
        if sid not in byid:
            continue
        res, st, _ = run_chunk(exe, byid[sid] + '\n', alarm=75)
        for line in res:
            r = parse_res(line)
            if r['id'] == sid:
                results[sid] = r
    return results, stats


def scenario_trace(exe, scenario_text):
    res, st, trace = run_chunk(exe, scenario_text + '\n', keep_trace=True)
    return res, trace


# ------------------------------------------------------------------ evidence / replay files

def write_json(path, obj):
    os.makedirs(os.path.dirname(path), exist_ok=True)
    tmp = path + '.tmp'
    with open(tmp, 'w') as f:
        json.dump(obj, f, indent=1, sort_keys=True)
    os.replace(tmp, path)


def known_findings():
    p = os.path.join(VERIF, 'known_findings.json')
    if not os.path.exists(p):
        return {'findings': [], 'fixed': []}
    with open(p) as f:
        return json.load(f)
