"""Per-property checks.  Every check = proof obligations (Lean, regenerated parameters) + correspondence
(model vs. real code on the same schedules) + monitors on the implementation's events."""
import hashlib
import json
import os
import random
import re
import time

import common
from common import FrameworkError, VERIF, BUILD, REPLAYS, EVIDENCE
import gen_lock

TRUSTED_BASE = [
    'Lean 4.33.0 kernel; axioms propext, Classical.choice, Quot.sound',
    'bit-level lemmas in Props/WSpecs.lean use bv_decide: one `<thm>._native.bv_decide.ax_*` axiom each '
    '(instance of Lean.ofReduceBool: trusts the compiled LRAT checker and the Lean compiler)',
    'extract/extract.py (tie G): constants evaluated by g++ from the repository sources, memory orders by textual scan',
    'harness/shim.hpp + sched.cpp + hx_*.cpp (tie C): token-level instrumentation of std::atomic typedefs, baton scheduler',
    'g++ 12 / libstdc++ executing the implementation',
    'hand-written control flow of the models (lean/CppUtil/Model/*): modelled, validated by the correspondence check, not verified',
]


class Check:
    lean_module = None          # e.g. 'CppUtil.Props.C01'
    theorems = []               # fully qualified names whose axioms are audited
    design_ref = ''
    assumptions = []

    def __init__(self, pid, tier, seed):
        self.pid = pid
        self.tier = tier if tier in ('quick', 'thorough') else 'quick'
        # every property draws its own stream of scenarios / cases from the run's seed: running all checks then
        # explores 20 different samples instead of the same one 20 times
        self.base_seed = seed
        self.seed = seed * 100 + int(pid[1:3])
        self.notes = []
        self.cov = {}
        self.violations = []      # list of dicts {msg, replay, found_input}
        self.known_hits = []
        self.proof = {'obligations': 0, 'discharged': 0, 'axioms': {}, 'build_ok': None, 'build_output': ''}
        self.tie_g = {'ok': True, 'problems': []}
        self.samples = []

    # ----- static part -------------------------------------------------------------------
    def relevant_functions(self):
        """C++ functions whose recognition by the extractor this property depends on (prefix match)."""
        return []

    def static_part(self):
        st = common.run_extract()
        self.gen_status = st
        probs = list(st.get('errors', []))
        for fn in st.get('unrecognised', []):
            if any(fn.startswith(p) for p in self.relevant_functions()):
                probs.append(f'function {fn} does not have the expected atomic call-site skeleton: '
                             f'{st["functions"][fn]["sites"]} vs {st["functions"][fn]["expected_ops"]}')
        self.tie_g = {'ok': not probs, 'problems': probs, 'gen_hash': st.get('gen_hash')}
        ok_drv, out_drv = common.lake_build(['cudrv'])
        if not ok_drv:
            raise FrameworkError('driver does not build:\n' + out_drv[-3000:])
        ok, out = common.lake_build([self.lean_module])
        self.proof['build_ok'] = ok
        self.proof['build_output'] = '' if ok else out[-4000:]
        hits = common.audit_sources()
        self.proof['audit_hits'] = hits
        n_obl = len(self.theorems)
        self.proof['obligations'] = n_obl
        if ok:
            axs, raw = common.print_axioms(self.lean_module, self.theorems)
            bad = []
            nd = 0
            for t, a in axs.items():
                if a is None:
                    bad.append(f'{t}: not found')
                    continue
                std, bv, other = common.classify_axioms(a)
                self.proof['axioms'][t] = {'standard': std, 'bv_decide_native': len(bv), 'other': other}
                if other:
                    bad.append(f'{t}: unexpected axioms {other}')
                else:
                    nd += 1
            self.proof['discharged'] = nd if not hits else 0
            self.proof['axiom_problems'] = bad
            if hits:
                self.proof['build_ok'] = False
                self.proof['build_output'] = 'source audit found escape hatches: ' + '; '.join(hits[:5])
            if bad:
                self.proof['build_ok'] = False
                self.proof['build_output'] += ' axiom audit: ' + '; '.join(bad)
            if self.tier == 'thorough' and self.proof['build_ok']:
                # independent re-check of the compiled property module by Lean's external checker
                okc, outc = common.leanchecker(self.lean_module)
                self.proof['leanchecker'] = 'ok' if okc else outc[-800:]
                if not okc:
                    self.proof['build_ok'] = False
                    self.proof['build_output'] += ' leanchecker: ' + outc[-800:]
        return self.proof['build_ok']

    # ----- dynamic part: to be provided ----------------------------------------------------
    def dynamic_part(self):
        raise NotImplementedError

    def search(self):
        """Deeper search on the implementation with this property's monitors. Returns a violation dict or None."""
        return None

    # ----- decision ------------------------------------------------------------------------
    def save_replay(self, tag, obj):
        os.makedirs(REPLAYS, exist_ok=True)
        h = hashlib.sha256(json.dumps(obj, sort_keys=True).encode()).hexdigest()[:10]
        path = os.path.join(REPLAYS, f'{self.pid}-{tag}-{h}.json')
        common.write_json(path, obj)
        return path

    def finding_matches(self, viol):
        """does a listed known finding (not a fixed entry) cover this violation?"""
        for f in common.known_findings().get('findings', []):
            if f.get('property') != self.pid:
                continue
            if self.matches_signature(f, viol):
                return f
        return None

    def matches_signature(self, finding, viol):
        return False

    def run(self):
        proof_ok = self.static_part()
        dyn = self.dynamic_part()   # fills self.cov, returns dict(failures=[...], mismatches=[...])
        failures = dyn.get('failures', [])
        mismatches = dyn.get('mismatches', [])
        tie_c_ok = not mismatches and not dyn.get('tie_c_problem')
        rc = 0
        reported = set()
        for v in failures:
            kf = self.finding_matches(v)
            if kf:
                key = kf.get('id')
                if key not in reported:
                    print(f'KNOWN-FINDING: property={self.pid} {kf.get("what", "")}')
                    reported.add(key)
                    self.known_hits.append(key)
                continue
            path = self.save_replay('witness', v)
            print(f'VIOLATION property={self.pid} replay={path}')
            print(f'  {v.get("msg", "")}')
            self.violations.append({'replay': path, 'msg': v.get('msg', ''), 'found_input': True})
            rc = 1
            break
        if rc == 0 and not (proof_ok and self.tie_g['ok'] and tie_c_ok):
            broken = []
            if not proof_ok:
                broken.append({'kind': 'proof', 'module': self.lean_module, 'output': self.proof['build_output']})
            if not self.tie_g['ok']:
                broken.append({'kind': 'tie-G', 'problems': self.tie_g['problems']})
            if not tie_c_ok:
                broken.append({'kind': 'correspondence', 'first_mismatches': mismatches[:3],
                               'problem': dyn.get('tie_c_problem')})
            w = self.search()
            if w and not self.finding_matches(w):
                w['broken'] = broken
                path = self.save_replay('witness', w)
                print(f'VIOLATION property={self.pid} replay={path}')
                print(f'  {w.get("msg", "")}')
                self.violations.append({'replay': path, 'msg': w.get('msg', ''), 'found_input': True})
            else:
                obj = {'property': self.pid, 'no_failing_input_found': True, 'broken': broken,
                       'explanation': 'the proof obligation or correspondence named here no longer checks; the '
                                      'search of model and implementation found no input on which the property fails'}
                path = self.save_replay('broken', obj)
                print(f'VIOLATION property={self.pid} replay={path} no-failing-input-found')
                for b in broken:
                    print('  broken: ' + json.dumps(b)[:600])
                self.violations.append({'replay': path, 'msg': 'tie or proof broken', 'found_input': False})
            rc = 1
        return rc

    # ----- evidence ------------------------------------------------------------------------
    def write_evidence(self, wall):
        cov = dict(self.cov)
        cov.update({
            'obligations': max(1, self.proof['obligations']),
            'discharged': self.proof['discharged'],
            'checker_cmd': f'cd lean && lake build {self.lean_module} && lake env lean <#print axioms on the property theorems> '
                           f'(driven by: python3 check/run.py {self.pid} --tier {self.tier})',
            'trusted_base': TRUSTED_BASE,
            'theorems': self.theorems,
            'axioms_per_theorem': self.proof.get('axioms', {}),
            'source_audit_hits': self.proof.get('audit_hits', []),
            'leanchecker': self.proof.get('leanchecker', 'not run in this tier'),
            'tie_G': self.tie_g,
            'known_findings_hit': self.known_hits,
        })
        if self.samples and 'samples' not in cov:
            cov['samples'] = self.samples[:3]
        ev = {
            'property_id': self.pid,
            'tier': self.tier,
            'seed': self.seed,
            'level': 'proof',
            'coverage': cov,
            'assumptions': self.assumptions,
            'wall_s': round(wall, 2),
            'violations': len(self.violations),
        }
        common.write_json(os.path.join(EVIDENCE, f'{self.pid}.json'), ev)

    def replay(self, path):
        raise NotImplementedError


# =====================================================================================================
# lock properties
# =====================================================================================================

def explicit_schedule(trace_text):
    """thread choices of a trace, to pin a replay independently of the scheduler policy"""
    return [ln.split()[1] for ln in trace_text.splitlines() if ln.startswith('Q ')]


MCS_BITS = ['CppUtil.Props.McsBits.add_s', 'CppUtil.Props.McsBits.sub_s', 'CppUtil.Props.McsBits.xor_xmask',
            'CppUtil.Props.McsBits.link_add', 'CppUtil.Props.McsBits.masks', 'CppUtil.Props.McsBits.publish_keeps_link',
            'CppUtil.Props.McsBits.last_shared_test', 'CppUtil.Props.McsBits.publish_is_rmw']


class LockCheck(Check):
    components = ['pess', 'opt', 'mcs']
    categories = []         # monitor message prefixes relevant to this property
    stuck_relevant = False  # end=stuck counts as a violation of this property
    counts = {'quick': 400, 'thorough': 45000}
    corpus = 'lock'
    assumptions = [
        'shared-counter capacity: fewer simultaneous requests than the field width (2^62 / 2^30 / 2^15)',
        'executions are interleavings of atomic steps (sequentially consistent atomics); relaxed pre-loads feeding only a CAS are unconstrained in the model',
    ]

    def relevant_functions(self):
        pre = []
        if 'pess' in self.components:
            pre.append('PessimisticLock::')
        if 'opt' in self.components:
            pre.append('OptimisticLock::')
        if 'mcs' in self.components:
            pre.append('MCSLock::')
        return pre

    extra_modules = []

    def static_part(self):
        ok = super().static_part()
        for mod in self.extra_modules:
            ok2, out = common.lake_build([mod])
            if not ok2:
                self.proof['build_ok'] = False
                self.proof['build_output'] += f' [{mod}] ' + out[-2000:]
                ok = False
        return ok

    def relevant_failure(self, r):
        """r: parsed RES dict. Returns message if r shows a violation of this property."""
        if r['mon'].startswith('FAIL'):
            # the monitors keep the first violation of every category, joined by ' || '
            for msg in r['mon'][5:].split(' || '):
                if any(msg.startswith(c) for c in self.categories):
                    return msg
        if self.stuck_relevant and r['end'] in ('stuck',):
            return f'no progress: step budget exhausted ({r["steps"]} quanta) with unfinished threads under a fair scheduler'
        if r['end'].startswith('crash') and self.crash_relevant():
            return 'implementation crashed (signal / sanitizer) in ' + r['id']
        if r['end'] == 'hang' and self.hang_relevant():
            return ('the implementation did not return: it used 20 s of user-mode CPU time without reaching another atomic '
                    'operation (non-terminating local loop) in ' + r['id'])
        return None

    def crash_relevant(self):
        return False

    def hang_relevant(self):
        return self.stuck_relevant or self.crash_relevant()

    def scenarios(self, n_per_comp, seed, prefix=''):
        out = {}
        for comp in self.components:
            for s in gen_lock.make_scenarios(comp, seed, n_per_comp, f'{prefix}{comp}-{seed}-'):
                sid = s.split()[1]
                out[sid] = s
        return out

    def corpus_scenarios(self):
        out = {}
        d = os.path.join(VERIF, 'corpus', self.corpus)
        if os.path.isdir(d):
            for fn in sorted(os.listdir(d)):
                if fn.endswith('.scen'):
                    txt = open(os.path.join(d, fn)).read().strip()
                    comp = re.search(r'comp=(\w+)', txt)
                    if comp and comp.group(1) in self.components:
                        out[txt.split()[1]] = txt
        return out

    def run_batch(self, exe, scen):
        if not hasattr(self, '_scen_texts'):
            self._scen_texts = {}
        self._scen_texts.update(scen)
        results, stats = common.run_scenarios(exe, list(scen.values()))
        return results, stats

    def make_witness(self, exe, scen_text, msg):
        res, trace = common.scenario_trace(exe, scen_text)
        sched = explicit_schedule(trace)
        pinned = scen_text.replace('\nGO', '\nS ' + ' '.join(sched) + '\nGO')
        return {'property': self.pid, 'msg': msg, 'scenario': pinned, 'driver_result': res,
                'trace_tail': trace.splitlines()[-40:], 'harness': 'lock',
                'replay_cmd': f'python3 check/run.py {self.pid} --replay <this file>'}

    def dynamic_part(self):
        try:
            exe = common.build_harness('lock')
        except FrameworkError as e:
            ok, out = common.repo_builds_normally()
            if not ok:
                print('the repository does not compile normally:\n' + out[-1500:])
                raise SystemExit(2)
            self.cov.update({'evaluations': 0, 'harness_build_error': str(e)[-1500:]})
            return {'failures': [], 'mismatches': [], 'tie_c_problem': 'harness does not compile with the shim: ' + str(e)[-1500:]}
        self.exe = exe
        n = self.counts[self.tier] // max(1, len(self.components))
        scen = self.corpus_scenarios()
        scen.update(self.scenarios(n, self.seed))
        results, stats = self.run_batch(exe, scen)
        if self.tier == 'thorough':
            # further seeds, and a batch on an AddressSanitizer + UBSan build of the same harness
            for extra in (1, 2):
                more = self.scenarios(n // 2, self.seed + 7919 * extra, prefix=f'x{extra}')
                r2, st2 = self.run_batch(exe, more)
                scen.update(more); results.update(r2); stats = common.merge_stats(stats, st2)
            try:
                exe_san = common.build_harness('lock', sanitize=True)
                san = self.scenarios(max(40, n // 4), self.seed + 104729, prefix='asan')
                san.update({'asan-' + k: v.replace('SCEN ' + k, 'SCEN asan-' + k, 1) for k, v in self.corpus_scenarios().items()})
                r3, st3 = self.run_batch(exe_san, san)
                scen.update(san); results.update(r3); stats = common.merge_stats(stats, st3)
                self.cov['sanitizer_scenarios'] = len(r3)
            except FrameworkError as e:
                self.cov['sanitizer_build_error'] = str(e)[-500:]
        failures, mismatches = [], []
        ok_count = 0
        for sid in sorted(results):
            r = results[sid]
            msg = self.relevant_failure(r)
            if msg:
                failures.append((r['steps'], sid, msg))
            if r['corr'] != 'ok':
                mismatches.append({'scenario_id': sid, 'detail': r['corr'][:500]})
            elif not msg and (r['end'].startswith('crash') or r['end'] == 'hang'):
                mismatches.append({'scenario_id': sid, 'detail': 'the implementation ended with ' + r['end'] +
                                   ' under the harness (the model finishes this scenario)'})
            if r['corr'] == 'ok' and r['mon'] == 'ok' and r['end'] == 'ok' and r.get('hb', 'ok') == 'ok':
                ok_count += 1
        missing = [sid for sid in scen if sid not in results]
        if missing:
            mismatches.append({'scenario_id': missing[0], 'detail': f'{len(missing)} scenarios produced no result'})
        failures.sort()
        fobjs = []
        for _, sid, msg in failures[:1]:
            fobjs.append(self.make_witness(exe, scen[sid], msg))
        # coverage
        self.cov.update({
            'evaluations': len(results),
            'traces_validated_against_impl': ok_count,
            'distinct_nontrivial': len({re.sub(r'SCEN \S+', '', s) for s in scen.values()}),
            'rule': 'scenarios = client programs from the API state diagram (acquire, convert chains, guard moves, '
                    'optimistic ops, payload accesses) x scheduler policy/seed; distinct = distinct program+policy+seed text; '
                    'each is executed on the real code under the baton scheduler and replayed step by step on the Lean model',
            'components': self.components,
            'distribution': stats,
            'mismatching_scenarios': len(mismatches),
            'exhaustive': False,
        })
        if stats.get('client_wf_checked'):
            self.cov['guard_algebra_premise'] = {
                'what': 'the guard-algebra theorems (c07_client_*, c13_client_*) assume well-formed client programs (WF: typed '
                        'instructions, existing variables / locks, every guard variable used by one thread); the driver evaluates '
                        'the executable premise wfB (wfB_sound: wfB = true implies WF) on the model state of every replayed '
                        'PessimisticLock / OptimisticLock scenario',
                'scenarios_checked': stats.get('client_wf_checked', 0),
                'scenarios_meeting_the_premise': stats.get('client_wf_true', 0),
            }
        some = sorted(scen)[:2]
        self.samples = [scen[s] for s in some]
        self.cov['samples'] = self.samples
        return {'failures': fobjs, 'mismatches': mismatches}

    def search(self):
        """more schedules/programs on the implementation, this property's monitors only"""
        exe = getattr(self, 'exe', None)
        if exe is None:
            return None
        best = None
        for k in range(1, 6):
            scen = self.scenarios(600, self.seed * 1000 + k, prefix='s')
            results, _ = self.run_batch(exe, scen)
            for sid in sorted(results):
                msg = self.relevant_failure(results[sid])
                if msg and (best is None or results[sid]['steps'] < best[0]):
                    best = (results[sid]['steps'], sid, msg, scen[sid])
            if best:
                break
        self.cov['search_scenarios'] = self.cov.get('search_scenarios', 0) + 600 * len(self.components) * k
        if best:
            return self.make_witness(exe, best[3], best[2])
        return None

    def replay(self, path):
        obj = json.load(open(path))
        if 'scenario' not in obj:
            print(json.dumps(obj, indent=1)[:4000])
            print('this replay file names a broken obligation, there is no input to replay')
            return 1
        common.run_extract()
        ok, out = common.lake_build(['cudrv'])
        if not ok:
            raise FrameworkError(out[-2000:])
        exe = common.build_harness('lock')
        res, trace = common.scenario_trace(exe, obj['scenario'])
        print(trace)
        for r in res:
            print(r)
        bad = any(self.relevant_failure(common.parse_res(r)) for r in res)
        return 1 if bad else 0


class C01(LockCheck):
    lean_module = 'CppUtil.Props.C01Client'
    theorems = ['CppUtil.Props.c01_pess', 'CppUtil.Props.c01_opt', 'CppUtil.Props.c01_word_counts_pess',
                'CppUtil.Props.c01_word_counts_opt', 'CppUtil.WLock.pess_specs', 'CppUtil.WLock.opt_specs',
                # guard level: owning guards on one lock are of compatible classes (guard algebra + lock theorem)
                'CppUtil.Props.c01_client_guards_compatible_pess', 'CppUtil.Props.c01_client_guards_compatible_opt',
                'CppUtil.WClient.reachable_locks',
                'CppUtil.Props.c01_mcs', 'CppUtil.Props.mcs_invariant', 'CppUtil.Props.mcs_publish_is_rmw',
                'CppUtil.Props.McsWordsGen.wordSpecs']
    extra_modules = ['CppUtil.Props.McsBits']
    categories = ['excl', 'payload']
    design_ref = '6 C01'


class C02(LockCheck):
    lean_module = 'CppUtil.Props.C02Client'
    theorems = ['CppUtil.Props.c02_client_quiescent_lock_free_pess', 'CppUtil.Props.c02_client_quiescent_lock_free_opt',
                'CppUtil.Props.c02_blocked_lock_pess', 'CppUtil.Props.c02_blocked_lock_opt',
                'CppUtil.Props.c02_blocked_upgrade_pess', 'CppUtil.Props.c02_blocked_upgrade_opt',
                'CppUtil.Props.c02_blocked_reader_opt', 'CppUtil.Props.c02_solo_acquire',
                'CppUtil.Props.c02_quiescent_free_pess', 'CppUtil.Props.c02_quiescent_free_opt',
                'CppUtil.Props.c02_mcs_blocked_xSpin', 'CppUtil.Props.c02_mcs_front_passes',
                'CppUtil.Props.c02_mcs_blocked_sSpinLock', 'CppUtil.Props.c02_mcs_blocked_drain',
                'CppUtil.Props.c02_fair_termination_pess', 'CppUtil.Props.c02_fair_termination_opt',
                'CppUtil.Props.c02_closed_system_steps', 'CppUtil.Props.c02_fair_termination_nonvacuous',
                'CppUtil.Props.c02_fair_termination_conv_pess', 'CppUtil.Props.c02_fair_termination_conv_opt',
                'CppUtil.Props.c02_closed_system_conv_steps', 'CppUtil.Props.c02_fair_termination_conv_nonvacuous',
                'CppUtil.Props.c02_fair_termination_programs_pess', 'CppUtil.Props.c02_fair_termination_programs_opt',
                'CppUtil.Props.c02_programs_steps', 'CppUtil.Props.c02_fair_termination_programs_nonvacuous']
    extra_modules = ['CppUtil.Props.McsBits']
    categories = []
    stuck_relevant = True


class C03(LockCheck):
    lean_module = 'CppUtil.Props.C03'
    components = ['opt']
    theorems = ['CppUtil.Props.c03_decisive_read', 'CppUtil.Props.c03_check_iff', 'CppUtil.Props.c03_trylock_sound',
                'CppUtil.Props.c03_window', 'CppUtil.WLock.opt_specs']
    categories = ['version']


class C07(LockCheck):
    lean_module = 'CppUtil.Props.C07'
    theorems = ['CppUtil.Props.c07_release_enabled_iff', 'CppUtil.Props.c07_release_finishes',
                'CppUtil.Props.c07_done_absorbing', 'CppUtil.Props.c07_release_once',
                # guard classes (client layer WClient): every well-formed program, every schedule
                'CppUtil.Props.c07_client_owner_holds', 'CppUtil.Props.c07_client_owner_holds_at_boundary',
                'CppUtil.Props.c07_client_one_owner', 'CppUtil.Props.c07_client_optguard_owns_nothing',
                'CppUtil.Props.c07_client_no_orphan', 'CppUtil.Props.c07_client_quiescent',
                'CppUtil.Props.c07_client_release_enabled', 'CppUtil.Props.c07_client_step_enabled',
                'CppUtil.WClient.step_inv', 'CppUtil.WClient.wfB_sound']
    categories = ['guard']


class C08(LockCheck):
    lean_module = 'CppUtil.Props.C08'
    theorems = ['CppUtil.Props.c08_pess_orders', 'CppUtil.Props.c08_opt_orders', 'CppUtil.Props.c08_pess',
                'CppUtil.Props.c08_opt', 'CppUtil.Props.c08_monotone', 'CppUtil.Props.c08_mcs_orders']
    categories = ['hb']
    assumptions = LockCheck.assumptions + [
        'happens-before is computed for executions in which every atomic read returns the newest value, with the '
        'C++20 release-sequence rules; other read-from choices of the C++ memory model are not covered',
    ]

    def relevant_failure(self, r):
        if r.get('hb', 'ok').startswith('FAIL'):
            return r['hb'][5:]
        return None


class C09(LockCheck):
    lean_module = 'CppUtil.Props.C09'
    components = ['opt']
    theorems = ['CppUtil.Props.c09_version_discipline', 'CppUtil.Props.c09_xguard_version',
                'CppUtil.Props.c09_release_word', 'CppUtil.Props.c09_downgrade_word', 'CppUtil.WLock.opt_specs']
    categories = ['verdisc']


class C10(LockCheck):
    lean_module = 'CppUtil.Props.C10Client'
    theorems = ['CppUtil.Props.c10_client_no_other_sixx_pess', 'CppUtil.Props.c10_client_no_other_sixx_opt',
                'CppUtil.Props.c10_no_other_sixx_pess', 'CppUtil.Props.c10_no_other_sixx_opt',
                'CppUtil.Props.c10_no_gap', 'CppUtil.Props.c10_upgrade_alone_pess',
                'CppUtil.Props.c10_upgrade_alone_opt', 'CppUtil.Props.c10_mcs']
    categories = ['excl']

    def relevant_failure(self, r):
        msg = super().relevant_failure(r)
        if msg and msg.startswith('excl'):
            # C10 is about SIX/X holders and conversions
            if 'conversion' in msg or 'mode SIX' in msg or 'mode X' in msg:
                return msg
            return None
        return msg


class C13(LockCheck):
    lean_module = 'CppUtil.Props.C13'
    components = ['opt']
    theorems = ['CppUtil.Props.c13_version_result', 'CppUtil.Props.c13_shared_fallback',
                'CppUtil.Props.c13_cas_from_noX', 'CppUtil.WLock.opt_specs',
                'CppUtil.Props.c13_client_owning_composite_holds_shared']
    categories = ['prepare']

    def relevant_failure(self, r):
        msg = super().relevant_failure(r)
        if msg:
            return msg
        # "a non-owning guard ... behaves exactly like an optimistic guard": validation results of composite guards
        if r['mon'].startswith('FAIL'):
            for m in r['mon'][5:].split(' || '):
                if m.startswith('version') and '[composite guard]' in m:
                    return m
            # "... an owning guard backed by a genuine shared grant ... which is released exactly once": the guard-level
            # monitors (operator bool against the ghost, grants never released, final lock words) in scenarios whose only
            # guards are composite guards next to plain lockers that release by destructor
            txt = getattr(self, '_scen_texts', {}).get(r['id'], '')
            if ' prep ' in txt or 'T prep ' in txt or ';prep ' in txt:
                for m in r['mon'][5:].split(' || '):
                    if m.startswith('guard') and self.only_composite_moves(txt):
                        return m
        return None

    @staticmethod
    def only_composite_moves(txt):
        """every move / conversion instruction of the scenario works on composite guards (so a guard-level failure is about them)"""
        kinds = re.search(r'kinds=(\S+)', txt)
        if not kinds:
            return False
        ks = kinds.group(1).split(',')
        for line in txt.splitlines():
            if not line.startswith('T'):
                continue
            for op in line[1:].split(';'):
                w = op.split()
                if w and w[0] in ('massign', 'mctor'):
                    if not all(int(x) < len(ks) and ks[int(x)] == 'Comp' for x in w[1:3]):
                        return False
                if w and w[0] in ('upg', 'dng', 'try'):
                    return False
        return True


class C11(LockCheck):
    lean_module = 'CppUtil.Props.C11'
    components = ['mcs']
    theorems = ['CppUtil.Props.c11_tail_word', 'CppUtil.Props.c11_join_keeps_tail', 'CppUtil.Props.c11_no_overtake',
                'CppUtil.Props.c11_queue_is_arrival_order', 'CppUtil.Props.mcs_invariant'] + MCS_BITS
    categories = ['fifo']


class C12(LockCheck):
    lean_module = 'CppUtil.Props.C12'
    components = ['mcs']
    theorems = ['CppUtil.Props.c12_unlockS_recycle_test', 'CppUtil.Props.c12_unlockX_recycle_test',
                'CppUtil.Props.c12_unlockS_tail_test', 'CppUtil.Props.c12_mcs_no_use_after_free',
                'CppUtil.Props.c12_mcs_live_nodes_accounted', 'CppUtil.Props.c12_mcs_no_leak_at_quiescence',
                'CppUtil.Props.mcs_invariant'] + MCS_BITS
    categories = ['nodes']

    def crash_relevant(self):
        return True


# =====================================================================================================
# IDManager / EpochManager properties
# =====================================================================================================
import gen_thread


class ThreadCheck(LockCheck):
    """Same decision logic as the lock checks; scenarios for the thread components, one harness build per
    ID capacity (DBGROUP_MAX_THREAD_NUM)."""
    components = ['thread']
    caps = [1, 2, 3]
    kinds = ('epoch', 'id')
    seq_share = 0.0
    long_share = 0.08
    deep_share = 0.0
    counts = {'quick': 360, 'thorough': 30000}
    corpus = 'thread'
    finding_tags = {}
    assumptions = [
        'executions are interleavings of the scheduling points (atomic operations, heartbeat issue / expiry / lookup); '
        'plain accesses of the epoch manager are folded into the quantum of the preceding scheduling point',
        'one coordinator thread calls ForwardGlobalEpoch',
    ]

    def relevant_functions(self):
        return ['IDManager::', 'EpochManager::', 'Epoch::']

    def dynamic_part(self):
        exes = {}
        try:
            for cap in self.caps:
                exes[cap] = common.build_harness('thread', nthread=cap)
        except FrameworkError as e:
            ok, out = common.repo_builds_normally()
            if not ok:
                print('the repository does not compile normally:\n' + out[-1500:])
                raise SystemExit(2)
            self.cov.update({'evaluations': 0, 'harness_build_error': str(e)[-1500:]})
            return {'failures': [], 'mismatches': [], 'tie_c_problem': 'harness does not compile with the shim: ' + str(e)[-1500:]}
        self.exes = exes
        n = self.counts[self.tier] // len(self.caps)
        allscen, results, stats = {}, {}, {}
        bycap = {cap: {} for cap in self.caps}
        for sid, txt in self.corpus_scenarios_thread().items():
            m = re.search(r'needcap=(\d+)', txt)
            cap = int(m.group(1)) if m else self.caps[-1]
            if cap in bycap:
                bycap[cap][sid] = txt
        for cap in self.caps:
            for s_ in gen_thread.make_scenarios(self.seed, n, f't{cap}-{self.seed}-', cap, kinds=self.kinds,
                                                long_share=self.long_share, seq_share=self.seq_share,
                                                deep_share=self.deep_share):
                bycap[cap][s_.split()[1]] = s_
        for cap in self.caps:
            r_, st_ = common.run_scenarios(exes[cap], list(bycap[cap].values()))
            results.update(r_)
            stats = common.merge_stats(stats, st_)
            allscen.update({k: (cap, v) for k, v in bycap[cap].items()})
        if self.tier == 'thorough':
            # a batch on an AddressSanitizer + UBSan build (largest capacity), other seed
            try:
                cap = self.caps[-1]
                exe_san = common.build_harness('thread', nthread=cap, sanitize=True)
                san = {}
                for s_ in gen_thread.make_scenarios(self.seed + 104729, max(40, n // 4), f'asan{cap}-', cap, kinds=self.kinds,
                                                    long_share=self.long_share, seq_share=self.seq_share,
                                                    deep_share=max(0.2, self.deep_share)):
                    san[s_.split()[1]] = s_
                r3, st3 = common.run_scenarios(exe_san, list(san.values()))
                results.update(r3)
                stats = common.merge_stats(stats, st3)
                allscen.update({k: (cap, v) for k, v in san.items()})
                exes = dict(exes)
                self.cov['sanitizer_scenarios'] = len(r3)
            except FrameworkError as e:
                self.cov['sanitizer_build_error'] = str(e)[-500:]
        failures, mismatches = [], []
        ok_count = 0
        for sid in sorted(results):
            r = results[sid]
            msg = self.relevant_failure(r)
            if msg:
                failures.append((r['steps'], sid, msg))
            if r['corr'] != 'ok':
                mismatches.append({'scenario_id': sid, 'detail': r['corr'][:500]})
            elif not msg and (r['end'].startswith('crash') or r['end'] == 'hang'):
                mismatches.append({'scenario_id': sid, 'detail': 'the implementation ended with ' + r['end'] +
                                   ' under the harness (the model finishes this scenario)'})
            if r['corr'] == 'ok' and r['end'] == 'ok':
                ok_count += 1
        missing = [sid for sid in allscen if sid not in results]
        if missing:
            mismatches.append({'scenario_id': missing[0], 'detail': f'{len(missing)} scenarios produced no result'})
        failures.sort()
        fobjs = []
        seen_tags = set()
        for _, sid, msg in failures:
            tag = self.tag_of(msg)
            if tag in seen_tags:
                continue
            seen_tags.add(tag)
            cap, txt = allscen[sid]
            w = self.make_witness(exes[cap], txt, msg)
            w['capacity'] = cap
            fobjs.append(w)
            if len(fobjs) >= 4:
                break
        self.cov.update({
            'evaluations': len(results),
            'traces_validated_against_impl': ok_count,
            'distinct_nontrivial': len({re.sub(r'SCEN \S+', '', v[1]) for v in allscen.values()}),
            'rule': 'scenarios = histories of thread start/exit (more threads than IDs, every probe start), guard creation / '
                    'destruction, GetProtectedEpochs, one coordinator forwarding the epoch (some runs across the 256-epoch '
                    'node boundaries) x scheduler policy/seed, for ID capacities ' + str(self.caps) + '; each executed on the real '
                    'code under the baton scheduler and replayed step by step on the Lean model',
            'components': ['IDManager', 'EpochManager', 'Epoch', 'EpochGuard'],
            'distribution': stats,
            'mismatching_scenarios': len(mismatches),
            'exhaustive': False,
        })
        outside = {}
        for r in results.values():
            pr = r.get('proto', '')
            if pr.startswith('outside:'):
                why = pr.split(':', 2)[2].replace('_', ' ')
                outside[why] = outside.get(why, 0) + 1
        self.cov['protocol_model_lockstep'] = {
            'what': 'EpochProto + EpochLists (the models of the interleaving theorems c04_protocol / c16_protocol_* / c17_protocol*) '
                    'are run in lockstep with the thread-level model on every replayed trace: each of their actions must be '
                    'enabled and ids, G, M, E, H, the chain of list nodes and the program counters of the acting thread must '
                    'agree after every quantum',
            'scenarios_followed_to_the_end': stats.get('proto_lockstep_scenarios', 0),
            'actions_applied': stats.get('proto_lockstep_actions', 0),
            'scenarios_outside_the_protocol_premises': outside,
        }
        some = sorted(allscen)[:2]
        self.samples = [allscen[s_][1][:1500] for s_ in some]
        self.cov['samples'] = self.samples
        return {'failures': fobjs, 'mismatches': mismatches}

    def tag_of(self, msg):
        tags = re.findall(r'\[[^\]]*\]', msg)
        return ' '.join(tags) if tags else 'untagged:' + msg[:20]

    def corpus_scenarios_thread(self):
        out = {}
        d = os.path.join(VERIF, 'corpus', 'thread')
        if os.path.isdir(d):
            for fn in sorted(os.listdir(d)):
                if fn.endswith('.scen'):
                    txt = open(os.path.join(d, fn)).read().strip()
                    out[txt.split()[1]] = txt
        return out

    def matches_signature(self, finding, viol):
        sig = finding.get('signature_substring')
        return bool(sig) and sig in viol.get('msg', '')

    def search_bigcap(self):
        """the property quantifies over every capacity: full-house histories at capacities around the word sizes of a
        packed flag array (only in the search for a failing input - 40 to 70 threads per scenario)"""
        if 'id' not in self.kinds:
            return None
        import random as _r
        for cap in (33, 64, 70):
            try:
                exe = common.build_harness('thread', nthread=cap)
            except FrameworkError:
                return None
            rng = _r.Random(f'bigcap-{self.seed}-{cap}')
            scen = {f'big{cap}-{i}': gen_thread.bigcap_scenario(rng, f'big{cap}-{i}', cap) for i in range(6)}
            results, _ = common.run_scenarios(exe, list(scen.values()))
            for sid in sorted(results):
                msg = self.relevant_failure(results[sid])
                if msg and not self.finding_matches({'msg': msg}):
                    w = self.make_witness(exe, scen[sid], msg)
                    w['capacity'] = cap
                    return w
        return None

    def search(self):
        exes = getattr(self, 'exes', None)
        if not exes:
            return None
        w = self.search_bigcap()
        if w:
            return w
        for k in range(1, 4):
            for cap in self.caps:
                scen = {s_.split()[1]: s_ for s_ in gen_thread.make_scenarios(self.seed * 1000 + k, 500, f's{cap}-', cap,
                                                                              kinds=self.kinds, long_share=self.long_share,
                                                                              seq_share=self.seq_share, deep_share=max(0.2, self.deep_share))}
                results, _ = common.run_scenarios(exes[cap], list(scen.values()))
                best = None
                for sid in sorted(results):
                    msg = self.relevant_failure(results[sid])
                    if msg and not self.finding_matches({'msg': msg}) and (best is None or results[sid]['steps'] < best[0]):
                        best = (results[sid]['steps'], sid, msg)
                if best:
                    w = self.make_witness(exes[cap], scen[best[1]], best[2])
                    w['capacity'] = cap
                    return w
        return None

    def make_witness(self, exe, scen_text, msg):
        w = super().make_witness(exe, scen_text, msg)
        w['harness'] = 'thread'
        return w

    def replay(self, path):
        obj = json.load(open(path))
        if 'scenario' not in obj:
            print(json.dumps(obj, indent=1)[:4000])
            return 1
        common.run_extract()
        ok, out = common.lake_build(['cudrv'])
        if not ok:
            raise FrameworkError(out[-2000:])
        exe = common.build_harness('thread', nthread=obj.get('capacity', 3))
        res, trace = common.scenario_trace(exe, obj['scenario'])
        print(trace)
        for r in res:
            print(r)
        bad = any(self.relevant_failure(common.parse_res(r)) for r in res)
        return 1 if bad else 0


class C04(ThreadCheck):
    def hang_relevant(self):
        return True   # ForwardGlobalEpoch / guard creation must return

    lean_module = 'CppUtil.Props.C04'
    theorems = ['CppUtil.Props.c04_protocol', 'CppUtil.Props.c04_protocol_min', 'CppUtil.Props.proto_must_start', 'CppUtil.Props.proto_must_kept',
                'CppUtil.Props.c04_protocol_nonvacuous', 'CppUtil.Props.c04_protocol_fails_with_original_exit_order',
                'CppUtil.Props.c04_collected_is_published', 'CppUtil.Props.c15_free_slot_all_expired', 'CppUtil.Props.c15_unexpired_unique', 'CppUtil.Props.c15_exit_order']
    categories = ['pin']
    kinds = ('epoch',)


class C05(ThreadCheck):
    lean_module = 'CppUtil.Props.C05'
    theorems = ['CppUtil.Props.c05_in_range', 'CppUtil.Props.c05_unique', 'CppUtil.Props.c05_stable', 'CppUtil.Props.c05_accessors_as_modelled']
    categories = ['ids']
    kinds = ('id', 'id', 'epoch')

    def dynamic_part(self):
        res = super().dynamic_part()
        # static-initialisation probe (plain build, no shim): a thread that obtained its ID inside a global constructor keeps
        # it for itself after all static initialisers have run (the reservation table must not be re-initialised dynamically)
        try:
            exe = common.build_harness('early', nthread=8)
            out = subprocess.run([exe], capture_output=True, text=True, timeout=60).stdout
            m = re.search(r'EARLY stable=(\d) dup=(\d) holders=(\d+) id=(\d+)', out)
            self.cov['static_initialisation_probe'] = out.strip()
            if m and (m.group(2) == '1' or m.group(1) == '0'):
                res['failures'].insert(0, {
                    'property': self.pid,
                    'msg': 'ids: the main thread obtained ID %s inside a global constructor; after static initialisation %s other '
                           'running thread(s) hold IDs and one of them holds the same ID (the reservation was wiped by a dynamic '
                           'initialiser of the table)' % (m.group(4), m.group(3)) if m.group(2) == '1' else
                           'ids: GetThreadID returned another ID after static initialisation than inside a global constructor',
                    'case': 'harness/hx_early.cpp built against the current sources without the shim: a global object with '
                            'init_priority(101) calls IDManager::GetThreadID(); main() starts DBGROUP_MAX_THREAD_NUM threads '
                            'that call GetThreadID() and keep their IDs',
                    'probe_output': out.strip(),
                    'replay_cmd': 'python3 check/run.py C05 --tier quick   (the probe is deterministic)'})
            elif not m:
                res['mismatches'].append({'scenario_id': 'static-initialisation-probe', 'detail': 'no result: ' + out[-300:]})
        except FrameworkError as e:
            res['mismatches'].append({'scenario_id': 'static-initialisation-probe', 'detail': 'does not build: ' + str(e)[-600:]})
        except subprocess.TimeoutExpired:
            res['mismatches'].append({'scenario_id': 'static-initialisation-probe', 'detail': 'did not finish within 60 s'})
        return res


class C14(ThreadCheck):
    caps = [2, 3, 6]
    lean_module = 'CppUtil.Props.C14'
    theorems = ['CppUtil.Props.c14_claim_returns', 'CppUtil.Props.c14_stepA_is_step', 'CppUtil.Props.c14_claim_returns_nonvacuous',
                'CppUtil.Props.c14_accessors_as_modelled', 'CppUtil.Props.c14_all_exited_all_free', 'CppUtil.Props.c14_flag_has_holder', 'CppUtil.Props.c14_solo_claim_succeeds', 'CppUtil.Props.c14_release_clears']
    categories = ['idleak']
    stuck_relevant = True
    kinds = ('id', 'id', 'epoch')


class C15(ThreadCheck):
    lean_module = 'CppUtil.Props.C15'
    theorems = ['CppUtil.Props.c15_exit_order', 'CppUtil.Props.c15_lifetime', 'CppUtil.Props.c15_free_slot_all_expired', 'CppUtil.Props.c15_unexpired_unique', 'CppUtil.Props.c15_counterexample_original_order']
    categories = ['heartbeat']
    kinds = ('id', 'epoch')


class C16(ThreadCheck):
    def hang_relevant(self):
        return True   # ForwardGlobalEpoch / guard creation must return

    lean_module = 'CppUtil.Props.C16'
    theorems = ['CppUtil.Props.c16_initial', 'CppUtil.Props.c16_min_le_cur', 'CppUtil.Props.c16_contains_cur_next', 'CppUtil.Props.c16_quiescent', 'CppUtil.Props.c16_head_is_new',
                'CppUtil.Props.c16_protocol_count', 'CppUtil.Props.c16_protocol_step', 'CppUtil.Props.c16_protocol_min_le_later_cur',
                'CppUtil.Props.c16_protocol_quiescent', 'CppUtil.Props.proto_quiet_start', 'CppUtil.Props.proto_quiet_create',
                'CppUtil.Props.c16_protocol_forward_returns',
                'CppUtil.Props.c17_protocol_forward_enabled']
    categories = ['epoch']
    kinds = ('epoch',)
    long_share = 0.15


class C17(ThreadCheck):
    lean_module = 'CppUtil.Props.C17'
    theorems = ['CppUtil.Props.c17_list_shape', 'CppUtil.Props.c17_read_back', 'CppUtil.Props.c17_sequential_available', 'CppUtil.Props.c17_sequential_stable',
                'CppUtil.Props.c17_protocol', 'CppUtil.Props.c17_protocol_stable', 'CppUtil.Props.c17_protocol_forward_enabled',
                'CppUtil.Props.lstep_projects', 'CppUtil.Props.c17_protocol_nonvacuous', 'CppUtil.Props.lists_small_example',
                'CppUtil.Props.lists_stale_premise_needed']
    categories = ['list']
    kinds = ('epoch',)
    long_share = 0.15
    deep_share = 0.2
    seq_share = 0.3

    def crash_relevant(self):
        return True


class C20(ThreadCheck):
    def hang_relevant(self):
        return True   # ForwardGlobalEpoch / guard creation must return

    lean_module = 'CppUtil.Props.C20'
    theorems = ['CppUtil.Props.c20_published_exact', 'CppUtil.Props.c20_published_unique', 'CppUtil.Props.c20_min_is_smallest',
                'CppUtil.Props.c20_good_consts', 'CppUtil.Props.c20_history_total', 'CppUtil.Props.c20_forward_after_history', 'CppUtil.Props.c20_prune_exact',
                'CppUtil.Props.c17_protocol_forward_enabled']
    categories = ['seqlist', 'seqnodes']
    kinds = ('epoch',)
    seq_share = 1.0
    long_share = 0.2
    deep_share = 0.08
    caps = [2, 3, 4]
    counts = {'quick': 150, 'thorough': 12000}


# =====================================================================================================
# Zipf generators
# =====================================================================================================
import gen_zipf
import subprocess
import collections


class ZipfCheck(Check):
    categories = []
    counts = {'quick': 90, 'thorough': 3000}
    assumptions = [
        'IEEE-754 binary64 arithmetic and the C library pow/log as executed on this machine (the Lean Float model calls the same libm)',
        'theorems are over a linear order / ordered field, not over floating point: rounding facts are validated by bit-for-bit comparison only',
    ]

    def relevant_functions(self):
        return []

    def relevant_failure(self, r):
        if r['mon'].startswith('FAIL'):
            for msg in r['mon'][5:].split(' || '):
                if any(msg.startswith(c) for c in self.categories):
                    return msg
                if msg.startswith('crash') and 'crash' in self.categories:
                    return msg
        return None

    def matches_signature(self, finding, viol):
        sig = finding.get('signature_substring')
        return bool(sig) and sig in viol.get('msg', '')

    ref_limit = 400000

    def run_cases(self, exe, g, cases, throws):
        p1 = '\n'.join(g.pass1(c) for c in cases) + '\n'
        out = subprocess.run([exe], input=p1, capture_output=True, text=True, timeout=1200).stdout
        cdfs = collections.defaultdict(dict)
        cur = None
        for l in out.splitlines():
            w = l.split()
            if not w:
                continue
            if w[0] == 'ZCASE':
                cur = w[1]
            elif w[0] == 'ZCDF':
                cdfs[cur][int(w[1])] = int(w[2], 16)
        texts = {}
        for c in cases:
            texts[c['id']] = g.pass2(c, cdfs[c['id']], with_ref=(c['n'] <= self.ref_limit or bool(c.get('big'))),
                                     with_pure=not c.get('big'))
        for i, t in enumerate(throws):
            texts[t.split()[1]] = t
        ids = list(texts)
        n = max(1, min(common.NCPU, len(ids)))
        chunks = ['\n'.join(texts[i] for i in ids[k::n]) + '\n' for k in range(n)]

        def one(txt):
            h = subprocess.run([exe], input=txt, capture_output=True, text=True, timeout=1800)
            d = subprocess.run([common.DRIVER, 'zipf'], input=h.stdout, capture_output=True, text=True, timeout=1800)
            if d.returncode != 0:
                raise FrameworkError('driver failed: ' + d.stderr[-1500:])
            return d.stdout
        from concurrent.futures import ThreadPoolExecutor
        with ThreadPoolExecutor(max_workers=n) as ex:
            outs = list(ex.map(one, chunks))
        results, stats = {}, {}
        for o in outs:
            for line in o.splitlines():
                if line.startswith('RES '):
                    r = common.parse_res(line)
                    results[r['id']] = r
                elif line.startswith('STATS '):
                    stats = common.merge_stats(stats, json.loads(line[6:]))
        return results, stats, texts

    def dynamic_part(self):
        try:
            exe = common.build_harness('zipf')
        except FrameworkError as e:
            ok, out = common.repo_builds_normally()
            if not ok:
                print('the repository does not compile normally:\n' + out[-1500:])
                raise SystemExit(2)
            self.cov.update({'evaluations': 0})
            return {'failures': [], 'mismatches': [], 'tie_c_problem': 'harness does not compile: ' + str(e)[-1500:]}
        self.exe = exe
        rng = random.Random(f'zipf-{self.seed}')
        self.ref_limit = 250000 if self.tier == 'quick' else 3000000
        g = gen_zipf.ZipfGen(rng, max_exact_n=60000 if self.tier == 'quick' else 2000000,
                             max_approx_n=1000000 if self.tier == 'quick' else 20000000)
        self.g = g
        cases = []
        d = os.path.join(VERIF, 'corpus', 'zipf')
        for fn in sorted(os.listdir(d)) if os.path.isdir(d) else []:
            if fn.endswith('.json'):
                cases.append(json.load(open(os.path.join(d, fn))))
        cases += g.grid_cases(f'z{self.seed}-')
        if self.pid != 'C19':   # the purity runs are switched off for them anyway
            cases += g.big_cases(f'z{self.seed}-', full=(self.tier == 'thorough'))
        cases += [g.pick_case(f'z{self.seed}-{i}') for i in range(self.counts[self.tier])]
        throws = g.throw_grid(f'z{self.seed}-') + [g.throw_case(f'zt{self.seed}-{i}') for i in range(24)]
        results, stats, texts = self.run_cases(exe, g, cases, throws)
        failures, mismatches = [], []
        ok_count = 0
        seen = set()
        for sid in sorted(results):
            r = results[sid]
            msg = self.relevant_failure(r)
            if msg:
                tag = ' '.join(re.findall(r'\[[^\]]*\]', msg)) or 'untagged'
                if tag not in seen:
                    seen.add(tag)
                    failures.append({'property': self.pid, 'msg': msg, 'case': texts[sid], 'driver_result': r,
                                     'replay_cmd': f'python3 check/run.py {self.pid} --replay <this file>'})
            if r['corr'] != 'ok':
                mismatches.append({'scenario_id': sid, 'detail': r['corr'][:500]})
            else:
                ok_count += 1
        missing = [i for i in texts if i not in results]
        if missing:
            mismatches.append({'scenario_id': missing[0], 'detail': f'{len(missing)} cases produced no result'})
        self.cov.update({
            'evaluations': len(results),
            'traces_validated_against_impl': ok_count,
            'distinct_nontrivial': len({(c['cls'], c['typ'], c['n'], c['alpha'], c['mn']) for c in cases}),
            'rule': 'cases = (class, integer type, min, max, alpha): bin counts dense around 1, 2, 100, 101, 1000 and powers of ten, '
                    'alpha on a 0.05 grid in [0,3] plus extremes, bounds negative / at the type limits; per case: GetCDF at boundary '
                    'bins compared bit for bit with the Lean Float model, scripted engine outputs landing exactly on / one ulp below / '
                    'one ulp above CDF breakpoints, purity (copy, move, equal parameters, threads), long double reference',
            'distribution': stats,
            'mismatching_scenarios': len(mismatches),
            'exhaustive': False,
        })
        self.samples = [texts[i][:600] for i in list(texts)[:2]]
        self.cov['samples'] = self.samples
        return {'failures': failures, 'mismatches': mismatches}

    def search(self):
        exe = getattr(self, 'exe', None)
        if exe is None:
            return None
        for k in range(1, 4):
            rng = random.Random(f'zipf-search-{self.seed}-{k}')
            g = gen_zipf.ZipfGen(rng, max_exact_n=400000, max_approx_n=4000000)
            self.ref_limit = 4000000
            cases = [g.pick_case(f'zs{k}-{i}') for i in range(300)]
            results, _, texts = self.run_cases(exe, g, cases, [g.throw_case(f'zst{k}-{i}') for i in range(6)])
            for sid in sorted(results):
                msg = self.relevant_failure(results[sid])
                if msg and not self.finding_matches({'msg': msg}):
                    return {'property': self.pid, 'msg': msg, 'case': texts[sid], 'driver_result': results[sid]}
        return None

    def replay(self, path):
        obj = json.load(open(path))
        if 'case' not in obj:
            print(json.dumps(obj, indent=1)[:4000])
            return 1
        common.run_extract()
        ok, out = common.lake_build(['cudrv'])
        exe = common.build_harness('zipf')
        h = subprocess.run([exe], input=obj['case'] + '\n', capture_output=True, text=True)
        d = subprocess.run([common.DRIVER, 'zipf'], input=h.stdout, capture_output=True, text=True)
        print(h.stdout[-3000:])
        print(d.stdout)
        bad = any(self.relevant_failure(common.parse_res(l)) for l in d.stdout.splitlines() if l.startswith('RES '))
        return 1 if bad else 0


class C06(ZipfCheck):
    lean_module = 'CppUtil.Props.C06'
    theorems = ['CppUtil.Props.c06_inverse_cdf', 'CppUtil.Props.c06_in_range', 'CppUtil.Props.c06_one_bin', 'CppUtil.Props.c06_switch']
    categories = ['inverse', 'range', 'crash']


class C18(ZipfCheck):
    lean_module = 'CppUtil.Props.C18'
    theorems = ['CppUtil.Props.c18_exact_entries', 'CppUtil.Props.c18_exact_monotone', 'CppUtil.Props.c18_one_bin', 'CppUtil.Props.c18_approx_equals_exact', 'CppUtil.Props.c18_approx_last_is_one']
    categories = ['cdf', 'close']


class C19(ZipfCheck):
    lean_module = 'CppUtil.Props.C19'
    theorems = ['CppUtil.Props.c19_class_facts', 'CppUtil.Props.c19_function_of_table_and_variate', 'CppUtil.Props.c19_table_function_of_params']
    categories = ['pure']


PROPS = {
    'C08': C08,
    'C06': C06, 'C18': C18, 'C19': C19,
    'C01': C01, 'C11': C11, 'C12': C12, 'C04': C04, 'C05': C05, 'C14': C14, 'C15': C15, 'C16': C16, 'C17': C17, 'C20': C20, 'C02': C02, 'C03': C03, 'C07': C07, 'C09': C09, 'C10': C10, 'C13': C13,
}
