#!/usr/bin/env python3
"""Regression of the machinery against the kept seeded changes: apply seeded/<name>/patch.diff to /repo, run
the check of the seeded property (quick tier), undo the patch, and record whether the change was detected.
usage: reseed.py [name ...]   (default: all);   writes seeded/REGRESSION.json;   restores evidence afterwards"""
import json, os, subprocess, sys, time

V = os.path.dirname(os.path.dirname(os.path.abspath(__file__)))
REPO = os.environ.get('VERIF_REPO', '/repo')   # a scratch worktree when the regression must not touch /repo

def sh(cmd, cwd=None, timeout=3000):
    r = subprocess.run(cmd, shell=True, cwd=cwd, capture_output=True, text=True, timeout=timeout)
    return r.returncode, r.stdout + r.stderr

def main():
    names = sys.argv[1:] or sorted(d for d in os.listdir(f'{V}/seeded') if os.path.isfile(f'{V}/seeded/{d}/patch.diff'))
    rc, out = sh(f'git -C {REPO} status --porcelain -- src include test')
    if out.strip():
        print(f'refusing: {REPO} has local changes'); return 2
    res, props = {}, set()
    for nm in names:
        meta = json.load(open(f'{V}/seeded/{nm}/meta.json')) if os.path.exists(f'{V}/seeded/{nm}/meta.json') else {}
        pid = meta.get('property') or nm[:3]
        props.add(pid)
        patch = f'{V}/seeded/{nm}/patch.diff'
        rc, out = sh(f'git -C {REPO} apply {patch}')
        if rc != 0:
            res[nm] = {'property': pid, 'applied': False, 'detail': out[-300:]}
            continue
        t = time.time()
        try:
            rc, out = sh(f'python3 check/run.py {pid} --tier quick', cwd=V)
        finally:
            sh(f'git -C {REPO} checkout -- .')
        viol = [l for l in out.splitlines() if l.startswith('VIOLATION')]
        res[nm] = {'property': pid, 'applied': True, 'rc': rc, 'detected': rc == 1 and bool(viol),
                   'with_failing_input': bool(viol) and 'no-failing-input-found' not in viol[0],
                   'line': viol[0][:300] if viol else out[-300:], 'wall_s': round(time.time() - t, 1)}
        print(nm, res[nm]['detected'], res[nm]['with_failing_input'], res[nm]['wall_s'], flush=True)
    for pid in sorted(props):
        sh(f'python3 check/run.py {pid} --tier quick', cwd=V)   # evidence back to the unchanged tree
    old = {}
    if os.path.exists(f'{V}/seeded/REGRESSION.json'):
        old = json.load(open(f'{V}/seeded/REGRESSION.json'))
    old.update(res)
    json.dump(old, open(f'{V}/seeded/REGRESSION.json', 'w'), indent=1, sort_keys=True)
    missed = [n for n, r in res.items() if r.get('applied') and not r.get('detected')]
    print('do not apply to the current HEAD (made before later fix: commits):', [n for n, r in res.items() if not r.get('applied')])
    print('missed:', missed)
    return 1 if missed else 0

sys.exit(main())
