#!/usr/bin/env python3
"""Self-test of the lock scenario generator: a payload cell that some thread writes is only accessed by a thread that holds
an S / SIX / X grant on that lock at that program position (TryLock* results are over-approximated as owning; composite
and optimistic guards do not count: reads under them are optimistic and may legitimately be torn), and no guard is
move-constructed from itself (not a legal use; self move-assignment is).  A generator that violates this makes the
monitors raise false alarms.  usage: selftest_gen.py [seeds]"""
import re, sys, os
sys.path.insert(0, os.path.dirname(os.path.abspath(__file__)))
import gen_lock

def main():
    seeds = int(sys.argv[1]) if len(sys.argv) > 1 else 40
    bad = tot = 0
    for comp in ('pess', 'opt', 'mcs'):
        for seed in range(1, seeds):
            for sc in gen_lock.make_scenarios(comp, seed, 60, 'a'):
                kinds = re.search(r'kinds=(\S+)', sc).group(1).split(',')
                written = {int(m.group(1)) for m in re.finditer(r'paywr (\d+) ', sc)}
                if re.search(r'mctor (\d+) \1\b', sc):
                    bad += 1
                    print('SELF MOVE-CONSTRUCTION', comp, seed, sc.split()[1])
                for l in sc.split('\n'):
                    if not l.startswith('T '):
                        continue
                    own = {}
                    for op in l[2:].split(';'):
                        w = op.split()
                        if not w:
                            continue
                        if w[0] == 'lock':
                            own[int(w[2])] = int(w[3])
                        elif w[0] == 'try':
                            own[int(w[2])] = 0
                        elif w[0] in ('upg', 'dng'):
                            d, s_ = int(w[1]), int(w[2])
                            if s_ in own:
                                own[d] = own.pop(s_)
                        elif w[0] in ('massign', 'mctor'):
                            d, s_ = int(w[1]), int(w[2])
                            if kinds[d] in ('S', 'SIX', 'X'):
                                own.pop(d, None)
                                if s_ in own:
                                    own[d] = own.pop(s_)
                        elif w[0] == 'dtor':
                            own.pop(int(w[1]), None)
                        elif w[0] in ('payrd', 'paywr') and int(w[1]) in written:
                            tot += 1
                            if int(w[1]) not in own.values():
                                bad += 1
                                print('UNPROTECTED', comp, seed, sc.split()[1], l[:150])
                                break
    print('payload accesses to written cells', tot, 'unprotected', bad)
    return 1 if bad else 0

sys.exit(main())
