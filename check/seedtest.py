#!/usr/bin/env python3
"""Confirm a seeded change produced in a scratch worktree and run the checks against it.
usage: seedtest.py <PID> <worktree> [--checks C01,C02,...] [--keep NAME]"""
import json, os, subprocess, sys, shutil, time
VERIF = os.path.dirname(os.path.dirname(os.path.abspath(__file__)))

def sh(cmd, cwd=None, timeout=1800):
    r = subprocess.run(cmd, shell=True, cwd=cwd, capture_output=True, text=True, timeout=timeout)
    return r.returncode, (r.stdout + r.stderr)

def restore_evidence(checks):
    """restore evidence: evidence files are rewritten by every run, also by the runs against the seeded tree;
    re-run the checks on the unchanged tree so that what gets committed describes the unchanged tree"""
    for c in checks or []:
        sh(f'python3 check/run.py {c} --tier quick', cwd=VERIF, timeout=3000)


def main():
    pid, wt = sys.argv[1], sys.argv[2]
    checks = None
    name = pid
    for i, a in enumerate(sys.argv):
        if a == '--checks':
            checks = sys.argv[i + 1].split(',')
        if a == '--keep':
            name = sys.argv[i + 1]
    seed = os.path.join(wt, '_seed')
    patch = os.path.join(seed, 'patch.diff')
    report = {'property': pid, 'worktree': wt}
    # 1. the patch applies to /repo's HEAD
    rc, out = sh(f'git -C /repo apply --check {patch}')
    report['applies_to_repo_head'] = rc == 0
    # 2. state of the worktree: change applied? ctest passes with it
    rc, out = sh(f'git -C {wt} diff --stat -- src include')
    report['worktree_diff'] = out.strip().splitlines()[-1:] 
    rc, out = sh(f'cmake --build _build 2>&1 | tail -1 && ctest --test-dir _build -j8 --timeout 900 2>&1 | tail -3', cwd=wt)
    report['ctest_with_change'] = '100% tests passed' in out
    report['ctest_tail'] = out[-300:]
    # 3. demo fails with the change
    rc1, out1 = sh('bash _seed/run_demo.sh', cwd=wt, timeout=900)
    report['demo_with_change_rc'] = rc1
    # 4. demo passes without it
    sh(f'git -C {wt} apply -R {patch}')
    rc2, out2 = sh('bash _seed/run_demo.sh', cwd=wt, timeout=900)
    report['demo_without_change_rc'] = rc2
    sh(f'git -C {wt} apply {patch}')
    report['confirmed'] = bool(report['applies_to_repo_head'] and report['ctest_with_change'] and rc1 != 0 and rc2 == 0)
    report['demo_with_change_tail'] = out1[-400:]
    # 5. run the checks with the patch applied to /repo
    results = {}
    inplace = '--inplace' in sys.argv   # run the checks against the worktree (VERIF_REPO) instead of patching /repo
    report['checks_run_against'] = wt if inplace else '/repo with the patch applied'
    if report['applies_to_repo_head']:
        if not inplace:
            sh(f'git -C /repo apply {patch}')
        try:
            allc = checks or [pid]
            for c in allc:
                t = time.time()
                rc, out = sh((f'VERIF_REPO={wt} ' if inplace else '') + f'python3 check/run.py {c}', cwd=VERIF, timeout=3000)
                lines = [l for l in out.splitlines() if l.startswith('VIOLATION') or l.startswith('KNOWN') or l.startswith('FRAMEWORK') or l.startswith('  ')]
                results[c] = {'rc': rc, 'wall': round(time.time() - t, 1), 'lines': lines[:6]}
        finally:
            if not inplace:
                sh('git -C /repo checkout -- .')
    report['checks'] = results
    restore_evidence(checks)
    print(json.dumps(report, indent=1))
    if '--keep' in sys.argv or True:
        d = os.path.join(VERIF, 'seeded', name)
        os.makedirs(d, exist_ok=True)
        for fn in os.listdir(seed):
            p = os.path.join(seed, fn)
            if os.path.isfile(p) and os.path.getsize(p) < 200000:
                shutil.copy(p, d)
        json.dump(report, open(os.path.join(d, 'confirmation.json'), 'w'), indent=1)

main()
