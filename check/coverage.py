#!/usr/bin/env python3
"""Which lines of the library do the generated scenarios / cases execute?  Builds the three harnesses with gcov
instrumentation, runs the quick-tier inputs of every check's generator, and lists the executable lines of /repo's
sources that were never run.  A blind spot of the correspondence check (tie C) is a line in that list.
usage: coverage.py [--seed N] [--count N]      output: .build/cov/REPORT.txt"""
import argparse, os, random, re, shutil, subprocess, sys
sys.path.insert(0, os.path.dirname(os.path.abspath(__file__)))
import common, gen_lock, gen_thread, gen_zipf
from common import REPO, HARNESS, BUILD

def sh(cmd, **kw):
    return subprocess.run(cmd, capture_output=True, text=True, **kw)

def build(kind, nthread=3, retry=1):
    main_src, tus, extra = common.HARNESS_KINDS[kind]
    d = os.path.join(BUILD, 'cov', f'{kind}-{nthread}')
    shutil.rmtree(d, ignore_errors=True)
    os.makedirs(d)
    flags = ['-std=c++20', '-O0', '-g', '-w', '--coverage', '-DVERIF_COVERAGE', f'-DDBGROUP_MAX_THREAD_NUM={nthread}',
             f'-DCPP_UTILITY_SPINLOCK_RETRY_NUM={retry}', '-DCPP_UTILITY_BACKOFF_TIME=0',
             f'-I{REPO}/include', f'-I{REPO}/src', f'-I{HARNESS}'] + [x for x in extra if x != 'NOSHIM']
    noshim = 'NOSHIM' in extra
    inc = [] if noshim else ['-include', os.path.join(HARNESS, 'shim.hpp')]
    objs = []
    for tu in tus:
        o = os.path.join(d, os.path.basename(tu).replace('.cpp', '.o'))
        r = sh(['g++'] + flags + inc + ['-c', os.path.join(REPO, tu), '-o', o]); assert r.returncode == 0, r.stderr[-2000:]
        objs.append(o)
    if not noshim:
        o = os.path.join(d, 'sched.o')
        r = sh(['g++'] + flags + ['-include', os.path.join(HARNESS, 'shim.hpp'), '-DVERIF_SHIM_NO_RENAME', '-c',
                                  os.path.join(HARNESS, 'sched.cpp'), '-o', o]); assert r.returncode == 0, r.stderr[-2000:]
        objs.append(o)
    o = os.path.join(d, 'main.o')
    r = sh(['g++'] + flags + inc + ['-c', os.path.join(HARNESS, main_src), '-o', o]); assert r.returncode == 0, r.stderr[-2000:]
    objs.append(o)
    exe = os.path.join(d, 'hx')
    r = sh(['g++', '--coverage', '-o', exe] + objs + ['-pthread']); assert r.returncode == 0, r.stderr[-2000:]
    return d, exe

def run_inputs(exe, texts, jobs=8):
    from concurrent.futures import ThreadPoolExecutor
    chunks = ['\n'.join(texts[i::jobs]) + '\n' for i in range(jobs)]
    with ThreadPoolExecutor(max_workers=jobs) as ex:
        list(ex.map(lambda t: subprocess.run([exe], input=t, capture_output=True, text=True, timeout=3000), chunks))

BR = {}

def collect(d, acc):
    for g in [f for f in os.listdir(d) if f.endswith('.gcda')]:
        for f in os.listdir(d):
            if f.endswith('.gcov'):
                os.remove(os.path.join(d, f))
        sh(['gcov', '-b', '-c', '-o', d, os.path.join(d, g)], cwd=d)
        for f in os.listdir(d):
            if not f.endswith('.gcov'):
                continue
            lines = open(os.path.join(d, f), errors='replace').read().splitlines()
            src = lines[0].split('Source:')[1] if lines and 'Source:' in lines[0] else ''
            if not src.startswith(REPO):
                continue
            rel = os.path.relpath(src, REPO)
            cur_ln = None
            for l in lines:
                mb = re.match(r'branch\s+(\d+)\s+(taken (\d+)|never executed)(.*)', l)
                if mb and cur_ln is not None:
                    if '(throw)' in mb.group(4):
                        continue
                    taken = mb.group(3) is not None and int(mb.group(3)) > 0
                    bk = (rel, cur_ln, int(mb.group(1)))
                    BR[bk] = BR.get(bk, False) or taken
                    continue
                m = re.match(r'\s*([^:]+):\s*(\d+):(.*)', l)
                if not m or m.group(2) == '0':
                    continue
                cnt, ln, text = m.group(1).strip(), int(m.group(2)), m.group(3)
                if cnt == '-':
                    continue
                hit = not cnt.startswith('#') and not cnt.startswith('=')
                cur_ln = ln
                key = (rel, ln)
                acc[key] = (acc.get(key, (False, ''))[0] or hit, text)

def main():
    ap = argparse.ArgumentParser()
    ap.add_argument('--seed', type=int, default=1)
    ap.add_argument('--count', type=int, default=150)
    a = ap.parse_args()
    acc = {}
    d, exe = build('lock')
    for comp in ('pess', 'opt', 'mcs'):
        run_inputs(exe, gen_lock.make_scenarios(comp, a.seed, a.count, f'{comp}-'))
    collect(d, acc)
    for cap in (1, 2, 3):
        d, exe = build('thread', nthread=cap)
        run_inputs(exe, gen_thread.make_scenarios(a.seed, a.count, f't{cap}-', cap, kinds=('epoch', 'id'), long_share=0.15,
                                                  seq_share=0.3, deep_share=0.2))
        collect(d, acc)
    d, exe = build('zipf')
    g = gen_zipf.ZipfGen(random.Random(a.seed))
    cases = [g.pick_case(f'z{i}') for i in range(a.count)]
    run_inputs(exe, [g.pass2(c, {}, with_ref=False, with_pure=True) for c in cases] + [g.throw_case(f'th{i}') for i in range(6)])
    collect(d, acc)
    byfile = {}
    for (rel, ln), (hit, text) in sorted(acc.items()):
        byfile.setdefault(rel, []).append((ln, hit, text))
    out = []
    for rel, ls in sorted(byfile.items()):
        tot = len(ls); miss = [(ln, t) for ln, h, t in ls if not h]
        out.append(f'{rel}: {tot - len(miss)}/{tot} executable lines run')
        for ln, t in miss:
            out.append(f'    {ln}: {t.rstrip()}')
    out.append('')
    out.append('branches (compiler-level, -O0) never taken in src/lock, src/thread:')
    nb = 0
    for (rel, ln, b), taken in sorted(BR.items()):
        if not taken and (rel.startswith('src/lock') or rel.startswith('src/thread')):
            nb += 1
            out.append(f'    {rel}:{ln} branch {b}: {acc.get((rel, ln), (0, ""))[1].strip()}')
    out.append(f'  {nb} of {sum(1 for k in BR if k[0].startswith("src/lock") or k[0].startswith("src/thread"))}')
    rep = os.path.join(BUILD, 'cov', 'REPORT.txt')
    open(rep, 'w').write('\n'.join(out) + '\n')
    print('\n'.join(out))

main()
