"""Case generator for the Zipf generators: both classes, all four integer types, bin counts dense around
1, 2, 100, 101, 1000 and powers of ten, skews on a fine grid plus extremes, bounds negative / near the
type limits with small ranges, and engine outputs that land exactly on, one ulp below and one ulp above
CDF breakpoints (two-pass: the breakpoints are first read from the implementation)."""
import math
import random
import struct

TYPES = {'u32': (0, 2**32 - 1), 'u64': (0, 2**64 - 1), 'i32': (-2**31, 2**31 - 1), 'i64': (-2**63, 2**63 - 1)}
N_SPECIAL = [1, 2, 3, 4, 50, 98, 99, 100, 101, 102, 103, 150, 199, 200, 201, 999, 1000, 1001, 1002, 1100, 1605, 1606,
             1700, 2000, 5000, 10000, 10001, 65536, 100000, 100001]
ALPHAS_SPECIAL = [0.0, 0.05, 0.5, 0.75, 0.95, 0.99, 1.0, 1.01, 1.5, 2.0, 2.5, 3.0, 4.0, 20.0, 400.0, 1e300]


def dbits(x):
    return struct.unpack('<Q', struct.pack('<d', x))[0]


def bits_to_double(b):
    return struct.unpack('<d', struct.pack('<Q', b))[0]


def raw_for(u):
    """engine output r with double(r) / 2^64 == u (u in [2^-11, 1))"""
    r = int(u * 2.0**64)
    if 0 <= r < 2**64 and float(r) / 2.0**64 == u:
        return r
    return None


class ZipfGen:
    def __init__(self, rng, max_exact_n=200000, max_approx_n=3000000):
        self.rng = rng
        self.max_exact_n = max_exact_n
        self.max_approx_n = max_approx_n

    def pick_case(self, cid):
        r = self.rng
        cls = r.choice(['exact', 'approx'])
        typ = r.choice(list(TYPES))
        lo, hi = TYPES[typ]
        if r.random() < 0.6:
            n = r.choice(N_SPECIAL)
        elif r.random() < 0.5:
            n = r.randrange(1, 3000)
        else:
            n = int(10 ** r.uniform(0, 6.6))
        n = max(1, min(n, self.max_exact_n if cls == 'exact' else self.max_approx_n))
        # bounds: keep n + kSkipSize + 1 representable (near-limit *ranges* are the known finding F8)
        span_ok = hi - lo - 300
        n = min(n, span_ok)
        c = r.random()
        if c < 0.4:
            mn = 0 if lo == 0 else r.choice([0, 0, -1, -n // 2, 1])
        elif c < 0.6:
            mn = lo                      # lowest representable bound
        elif c < 0.8:
            mn = hi - (n - 1)            # the range ends at the largest representable value
        else:
            mn = r.randrange(lo, hi - n - 200)
        mn = max(lo, min(mn, hi - (n - 1)))
        mx = mn + n - 1
        if cls == 'approx' and mx > hi - 250 and n > 100:
            # GetHarmonicNum(id + 1) / i += kSkipSize must stay representable in IntType only as *counts*, not values;
            # the bound itself may sit at the limit
            pass
        if r.random() < 0.45:
            alpha = r.choice(ALPHAS_SPECIAL)
        else:
            alpha = round(r.uniform(0, 3) / 0.05) * 0.05
        return dict(id=cid, cls=cls, typ=typ, mn=mn, mx=mx, n=n, alpha=alpha)

    def grid_cases(self, prefix):
        """deterministic part of every run: both classes at every bin count around the structural boundaries (1 bin,
        the 100-bin exact/approximate switch, the first trapezoid blocks, the documented 1000-bin threshold) for a
        small grid of skews, integer types and offsets rotating"""
        out = []
        types = list(TYPES)
        k = 0
        for cls in ('exact', 'approx'):
            for n in (1, 2, 3, 99, 100, 101, 102, 199, 200, 201, 202, 300, 999, 1000, 1001, 1100, 1200):
                for alpha in (0.0, 0.5, 1.0, 2.0):
                    typ = types[k % len(types)]
                    lo, hi = TYPES[typ]
                    mn = [0, lo, hi - (n - 1), 1 if lo == 0 else -n // 2][(k // len(types)) % 4]
                    mn = max(lo, min(mn, hi - (n - 1)))
                    out.append(dict(id=f'{prefix}g{k}', cls=cls, typ=typ, mn=mn, mx=mn + n - 1, n=n, alpha=alpha))
                    k += 1
        return out

    def big_cases(self, prefix, full=False):
        """approximate class with more bins than a 32-bit (signed / unsigned) integer can count, and more than 2^32 bins for
        the 64-bit types: bin arithmetic that silently assumes `2 * n` or `n * (n + 1)` fits its integer type.  Construction
        is O(n / 100); the reference is evaluated by Euler-Maclaurin summation at sampled bins (`ZR` with n > 2*10^7)."""
        cs = [('u32', 1000, 3000000000, 0.0), ('i32', -10**9, 2 * 10**9 + 1, 1.0),
              ('u64', 7, 5 * 10**9, 1.0), ('i64', -3, 5 * 10**9, 0.99)]
        if full:
            cs += [('u32', 0, 2**31 + 5, 1.0), ('i32', -2**31, 2**30 + 7, 0.0), ('u32', 5, 4 * 10**9, 2.0),
                   ('i64', 10, 4294967296 + 1000, 1.0), ('u64', 0, 2**33, 0.5)]
        out = []
        for k, (typ, mn, n, alpha) in enumerate(cs):
            out.append(dict(id=f'{prefix}big{k}', cls='approx', typ=typ, mn=mn, mx=mn + n - 1, n=n, alpha=alpha, big=True))
        return out

    def header(self, c):
        return f'ZCASE {c["id"]} {c["cls"]} {c["typ"]} {c["mn"]} {c["mx"]} {dbits(c["alpha"]):016x}'

    def ks(self, c):
        n = c['n']
        ks = {0, 1, 2, 3, 97, 98, 99, 100, 101, 102, n - 3, n - 2, n - 1, n // 2, n // 3}
        if c.get('big'):
            ks |= {2**30 - 1, 2**30, 2**31 - 2, 2**31 - 1, 2**31, 2**32 - 2, 2**32 - 1, 2**32, 2**32 + 1, 100000, 10**7}
        for _ in range(6):
            ks.add(self.rng.randrange(n))
        return sorted(k for k in ks if 0 <= k < n)

    def pass1(self, c):
        return '\n'.join([self.header(c), 'ZK ' + ' '.join(map(str, self.ks(c))), 'ZGO'])

    def pass2(self, c, cdf_bits, with_ref, with_pure):
        r = self.rng
        raws = [0, 1, 2**63, 2**64 - 1, 2**64 - 2**11, 2**64 - 2**10, 2**53, 2**53 + 1]
        for b in cdf_bits.values():
            u = bits_to_double(b)
            if not (u == u) or u <= 0:
                continue
            for cand in (u, math.nextafter(u, 0.0), math.nextafter(u, 2.0)):
                if 2.0**-11 <= cand < 1.0:
                    rw = raw_for(cand)
                    if rw is not None:
                        raws.append(rw)
        for _ in range(24):
            raws.append(r.randrange(2**64))
        lines = [self.header(c), 'ZK ' + ' '.join(map(str, self.ks(c)))]
        for i in range(0, len(raws), 40):
            lines.append('ZS ' + ' '.join(map(str, raws[i:i + 40])))
        if with_pure:
            lines.append(f'ZP {r.choice([50, 200])} {r.randrange(1, 1 << 30)} {r.choice([0, 2, 3])}')
        if with_ref:
            lines.append('ZR')
        lines.append('ZGO')
        return '\n'.join(lines)

    def throw_grid(self, prefix):
        """deterministic inverted ranges: next to each other, far apart, and at the ends of every integer type (differences
        that overflow a signed 64-bit integer, sign-bit corners)"""
        out = []
        k = 0
        for cls in ('exact', 'approx'):
            for typ, (lo, hi) in TYPES.items():
                mid = (lo + hi) // 2
                for mn, mx in ((hi, lo), (hi, hi - 1), (lo + 1, lo), (mid + 1, mid), (hi, mid), (mid + 1, lo), (10, 3), (1, 0)):
                    if lo <= mx < mn <= hi:
                        c = dict(id=f'{prefix}tg{k}', cls=cls, typ=typ, mn=mn, mx=mx, n=0, alpha=1.0)
                        out.append(self.header(c) + '\nZGO')
                        k += 1
        return out

    def throw_case(self, cid):
        r = self.rng
        typ = r.choice(list(TYPES))
        lo, hi = TYPES[typ]
        mn = r.randrange(max(lo, -1000), min(hi, 1000) - 1) + 1
        mx = mn - r.choice([1, 1, 2, 100])
        mx = max(lo, mx)
        if mx >= mn:
            mn, mx = lo + 1, lo
        if r.random() < 0.5:
            # inverted ranges at the ends of the type: min near the top, max near the bottom (differences that do not fit
            # a signed 64-bit integer, sign-bit corners)
            mn = r.choice([hi, hi - 1, hi // 2 + 1, hi // 2 + 2])
            mx = r.choice([lo, lo + 1, hi // 2, hi // 2 - 1, mn - 1])
            if mx >= mn:
                mx = lo
        c = dict(id=cid, cls=r.choice(['exact', 'approx']), typ=typ, mn=mn, mx=mx, n=0, alpha=r.choice([0.0, 1.0, 2.5]))
        return self.header(c) + '\nZGO'
