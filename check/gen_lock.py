"""Scenario generator for the three lock classes: mostly well-formed client programs drawn from the
API state diagram of design_doc/lock.md, plus a stream of odd-but-legal guard manipulations."""
import random

# per-thread variable block
BLOCK_PESS = ['S', 'S', 'SIX', 'SIX', 'X', 'X']
BLOCK_OPT = ['S', 'S', 'SIX', 'SIX', 'X', 'X', 'Opt', 'Opt', 'Comp', 'Comp']
BOUNDARY_VERS = [0, 1, 2, 0x7fffffff, 0x80000000, 0xfffffffe, 0xffffffff]


class LockGen:
    def __init__(self, comp, rng, nlocks=1, odd=0.15, opt_share=0.5):
        self.comp = comp
        self.rng = rng
        self.nlocks = nlocks
        self.block = BLOCK_OPT if comp == 'opt' else BLOCK_PESS
        self.odd = odd
        self.opt_share = opt_share
        self.payval = 0

    def var(self, t, kind, which=0):
        base = t * len(self.block)
        idxs = [i for i, k in enumerate(self.block) if k == kind]
        return base + idxs[which]

    def nextval(self):
        self.payval += 1
        return self.payval

    # ---- episodes; each returns a list of op strings and leaves the thread without grants
    def tail_release(self, t, kind, v, ops):
        r = self.rng.random()
        other = self.var(t, kind, 1)
        if other == v:
            # never `mctor x x`: constructing an object from itself is not a legal use (self move-ASSIGNMENT is, and the
            # same-lock scenarios exercise it)
            other = self.var(t, kind, 0)
        if r < 0.55:
            ops.append(f'dtor {v}')
        elif r < 0.75:
            ops += [f'massign {other} {v}', f'bool {v}', f'bool {other}', f'dtor {other}']
        elif r < 0.9:
            ops += [f'mctor {other} {v}', f'bool {v}', f'dtor {other}']
        else:
            # move assignment from an empty guard releases too
            ops += [f'massign {v} {other}', f'bool {v}']

    def sec_S(self, t, lk, ops):
        v = self.var(t, 'S')
        ops.append(f'lock S {v} {lk}')
        if self.rng.random() < 0.5:
            ops.append(f'bool {v}')
        for _ in range(self.rng.randrange(0, 3)):
            ops.append(f'payrd {lk}')
        self.tail_release(t, 'S', v, ops)

    def x_body(self, t, lk, v, ops):
        for _ in range(self.rng.randrange(0, 3)):
            ops.append(self.rng.choice([f'paywr {lk} {self.nextval()}', f'payrd {lk}']))
        if self.comp == 'opt':
            if self.rng.random() < 0.5:
                val = self.rng.choice(BOUNDARY_VERS + [self.rng.randrange(0, 1 << 32), self.rng.randrange(0, 8)])
                ops.append(f'setver {v} {val:#x}')
            if self.rng.random() < 0.5:
                ops.append(f'xver {v}')

    def six_body(self, t, lk, v, ops):
        for _ in range(self.rng.randrange(0, 2)):
            ops.append(f'payrd {lk}')

    def chain(self, t, lk, mode, v, ops, depth):
        """holding `mode` in var v: convert up to `depth` times, then release"""
        while depth > 0 and self.rng.random() < 0.6:
            depth -= 1
            if mode == 'X':
                nv = self.var(t, 'SIX', self.rng.randrange(2))
                ops.append(f'dng {nv} {v}')
                if self.rng.random() < 0.4:
                    ops += [f'bool {v}', f'bool {nv}']
                mode, v = 'SIX', nv
                self.six_body(t, lk, v, ops)
            else:
                nv = self.var(t, 'X', self.rng.randrange(2))
                ops.append(f'upg {nv} {v}')
                if self.rng.random() < 0.4:
                    ops += [f'bool {v}', f'bool {nv}']
                mode, v = 'X', nv
                self.x_body(t, lk, v, ops)
        self.tail_release(t, mode, v, ops)

    def sec_X(self, t, lk, ops):
        v = self.var(t, 'X')
        ops.append(f'lock X {v} {lk}')
        self.x_body(t, lk, v, ops)
        self.chain(t, lk, 'X', v, ops, 3)

    def sec_SIX(self, t, lk, ops):
        v = self.var(t, 'SIX')
        ops.append(f'lock SIX {v} {lk}')
        self.six_body(t, lk, v, ops)
        self.chain(t, lk, 'SIX', v, ops, 3)

    def sec_odd(self, t, lk, ops):
        r = self.rng.randrange(7)
        if r == 6:
            r = 4
        s0, s1 = self.var(t, 'S'), self.var(t, 'S', 1)
        i0, x0 = self.var(t, 'SIX'), self.var(t, 'X')
        if r == 0:
            ops += [f'bool {s0}', f'dtor {s0}', f'bool {s0}']
        elif r == 1:
            ops += [f'upg {x0} {i0}', f'bool {x0}', f'bool {i0}', f'dtor {x0}']
        elif r == 2:
            ops += [f'dng {i0} {x0}', f'bool {i0}', f'bool {x0}', f'dtor {i0}']
        elif r == 3:
            ops += [f'massign {s0} {s1}', f'bool {s0}', f'mctor {s1} {s0}', f'bool {s1}']
        elif r == 4 and self.nlocks >= 2:
            # move assignment / move construction over an owning guard, every guard kind
            # (locks taken in ascending order by every thread: no cycle)
            kinds = ['S', 'SIX', 'X'] + (['Comp'] if self.comp == 'opt' else [])
            kd = self.rng.choice(kinds)
            a, b = self.var(t, kd), self.var(t, kd, 1)
            how = self.rng.choice(['massign', 'massign', 'mctor'])
            if kd == 'Comp':
                ops += [f'prep {a} 0', f'prep {b} 1', f'{how} {a} {b}', f'bool {a}', f'bool {b}', f'cverify {a}',
                        f'dtor {b}', f'dtor {a}']
            else:
                ops += [f'lock {kd} {a} 0', f'lock {kd} {b} 1', f'{how} {a} {b}', f'bool {a}', f'bool {b}']
                if kd != 'X' or True:
                    ops.append('payrd 1')
                ops += [f'dtor {b}', f'dtor {a}']
        else:
            # a consumed guard converts to nothing
            ops += [f'lock SIX {i0} {lk}', f'upg {x0} {i0}', f'upg {self.var(t, "X", 1)} {i0}',
                    f'bool {self.var(t, "X", 1)}', f'dtor {x0}']

    def sec_opt(self, t, lk, ops):
        o = self.var(t, 'Opt', self.rng.randrange(2))
        c = self.var(t, 'Comp', self.rng.randrange(2))
        r = self.rng.randrange(7)
        if r == 0:
            ops += [f'getver {o} {lk}', f'bool {o}', f'verify {o}', f'gver {o}']
        elif r == 1:
            ops += [f'getver {o} {lk}', f'verify {o}', f'verify {o}']
        elif r in (2, 3, 4):
            m = ['S', 'SIX', 'X'][r - 2]
            v = self.var(t, m)
            ops += [f'getver {o} {lk}']
            if self.rng.random() < 0.3:
                ops.append(f'verify {o}')
            ops += [f'try {m} {v} {o}', f'bool {v}', f'gver {o}']
            if m == 'X':
                ops.append(f'xver {v}')
                if self.rng.random() < 0.5:
                    ops.append(f'setver {v} {self.rng.choice(BOUNDARY_VERS):#x}')
            ops.append(f'dtor {v}')
        elif r == 5:
            ops += [f'prep {c} {lk}', f'bool {c}', f'cverify {c}', f'gver {c}', f'dtor {c}']
        else:
            c2 = self.var(t, 'Comp', 1 - (c - self.var(t, 'Comp', 0)))
            ops += [f'prep {c} {lk}', f'massign {c2} {c}', f'bool {c}', f'bool {c2}', f'cverify {c2}', f'dtor {c2}']

    def program(self, t, n_episodes):
        ops = []
        for _ in range(n_episodes):
            lk = self.rng.randrange(self.nlocks)
            r = self.rng.random()
            if r < self.odd:
                self.sec_odd(t, lk, ops)
            elif self.comp == 'opt' and r < self.odd + self.opt_share * (1 - self.odd):
                self.sec_opt(t, lk, ops)
            else:
                self.rng.choice([self.sec_S, self.sec_X, self.sec_SIX, self.sec_X])(t, lk, ops)
        return ops

    def scenario(self, sid, nthreads=None, episodes=None, policy=None):
        nthreads = nthreads or self.rng.choice([2, 2, 3, 3, 4])
        progs = []
        for t in range(nthreads):
            progs.append(self.program(t, episodes or self.rng.randrange(1, 4)))
        if self.comp == 'opt' and self.nlocks >= 2 and self.rng.random() < 0.5:
            # a writer that holds X for a while, next to a PrepareRead caller that then overwrites / moves the
            # (possibly owning) composite guard: the shared-lock fallback of PrepareRead needs exactly this
            x = self.var(0, 'X')
            # (the hold time straddles the retry budget of the optimistic phase: shorter holds end in the optimistic
            # phase, longer ones push PrepareRead into its shared-lock fallback, whose CAS then races with the others)
            hold = self.rng.choice([1, 2, 3, 5, 8, 12, 16, 24])
            progs[0] = [f'lock X {x} 0'] + [f'paywr 0 {self.nextval()}' for _ in range(hold)] + [f'dtor {x}'] + progs[0]
            a, b = self.var(1, 'Comp'), self.var(1, 'Comp', 1)
            how = self.rng.choice(['massign', 'mctor'])
            progs[1] = [f'prep {a} 0', f'bool {a}', f'prep {b} 1', f'{how} {a} {b}', f'bool {a}', f'bool {b}',
                        f'cverify {a}', f'dtor {b}', f'dtor {a}'] + progs[1]
        # probe thread: after everybody else has finished, every lock must be free for LockX
        pt = nthreads
        px = self.var(pt, 'X')
        probe = []
        for lk in range(self.nlocks):
            probe += [f'lock X {px} {lk}', f'dtor {px}']
        progs.append(probe)
        kinds = ','.join(self.block * (nthreads + 1))
        policy = self.rng.choice([0, 1, 1, 2, 2, 3]) if policy is None else policy
        seed = self.rng.randrange(1, 1 << 30)
        lines = [f'SCEN {sid} comp={self.comp} nlocks={self.nlocks} kinds={kinds} policy={policy} seed={seed} '
                 f'max_steps=3000 late={pt}']
        for p in progs:
            lines.append('T ' + ';'.join(p))
        lines.append('GO')
        return '\n'.join(lines)


def staggered_scenario(comp, rng, sid):
    """overlapping tenures: 3-5 threads, each delays (payload reads of an otherwise unused second lock = scheduling
    quanta), requests one mode on lock 0, holds it for a while, optionally converts, releases.  Under round robin the
    delays decide who holds / queues behind whom (e.g. S holder + SIX holder + queued X, release orders of a group),
    which back-to-back random episodes rarely produce."""
    g = LockGen(comp, rng, nlocks=2)
    nthreads = rng.choice([3, 3, 4, 5])
    progs = []
    for t in range(nthreads):
        ops = [f'payrd 1'] * rng.randrange(0, 8)
        mode = rng.choice(['S', 'S', 'SIX', 'X', 'X'])
        v = g.var(t, mode)
        ops.append(f'lock {mode} {v} 0')
        hold = rng.randrange(0, 10)
        if mode == 'X':
            ops += [f'paywr 0 {g.nextval()}' for _ in range(rng.randrange(1, 3))]
            ops += ['payrd 1'] * hold
            if rng.random() < 0.3:
                g.chain(t, 0, 'X', v, ops, 2)
            else:
                ops.append(f'dtor {v}')
        elif mode == 'SIX':
            ops += ['payrd 0'] * (hold // 2) + ['payrd 1'] * (hold - hold // 2)
            if rng.random() < 0.4:
                g.chain(t, 0, 'SIX', v, ops, 2)
            else:
                ops.append(f'dtor {v}')
        else:
            ops += ['payrd 0'] * hold
            ops.append(f'dtor {v}')
        if rng.random() < 0.3:
            # a second, short request afterwards
            m2 = rng.choice(['S', 'X', 'SIX'])
            v2 = g.var(t, m2, 1)
            ops += [f'lock {m2} {v2} 0'] + ([f'paywr 0 {g.nextval()}'] if m2 == 'X' else ['payrd 0']) + [f'dtor {v2}']
        progs.append(ops)
    pt = nthreads
    px = g.var(pt, 'X')
    progs.append([f'lock X {px} 0', f'dtor {px}', f'lock X {px} 1', f'dtor {px}'])
    kinds = ','.join(g.block * (nthreads + 1))
    policy = rng.choice([0, 0, 0, 1, 2])
    lines = [f'SCEN {sid} comp={comp} nlocks=2 kinds={kinds} policy={policy} seed={rng.randrange(1, 1 << 30)} '
             f'max_steps=4000 late={pt}']
    lines += ['T ' + ';'.join(p) for p in progs]
    lines.append('GO')
    return '\n'.join(lines)


def samelock_scenario(comp, rng, sid):
    """two owning guards of one kind on the SAME lock in one thread (legal for S: the grants are shared), then move
    assignment / move construction between them, and self move-assignment of an owning guard.  For MCSLock every
    thread uses S only (a queued X/SIX between a thread's two S requests would be a client-level deadlock); for the
    word locks writers run alongside."""
    g = LockGen(comp, rng, nlocks=1)
    nthreads = rng.choice([1, 2, 2, 3])
    progs = []
    for t in range(nthreads):
        a, b = g.var(t, 'S'), g.var(t, 'S', 1)
        ops = []
        for _ in range(rng.randrange(1, 4)):
            r = rng.random()
            if r < 0.55:
                how = rng.choice(['massign', 'massign', 'mctor'])
                d, s_ = (a, b) if rng.random() < 0.5 else (b, a)
                ops += [f'lock S {a} 0', f'lock S {b} 0', f'{how} {d} {s_}', f'bool {a}', f'bool {b}', 'payrd 0',
                        f'dtor {a}', f'dtor {b}']
            elif r < 0.8:
                ops += [f'lock S {a} 0', f'massign {a} {a}', f'bool {a}', f'dtor {a}']
            elif comp != 'mcs':
                x = g.var(t, 'X')
                ops += [f'lock X {x} 0', f'paywr 0 {g.nextval()}', f'dtor {x}']
            else:
                ops += [f'lock S {a} 0', 'payrd 0', f'dtor {a}']
        progs.append(ops)
    pt = nthreads
    px = g.var(pt, 'X')
    progs.append([f'lock X {px} 0', f'dtor {px}'])
    kinds = ','.join(g.block * (nthreads + 1))
    lines = [f'SCEN {sid} comp={comp} nlocks=1 kinds={kinds} policy={rng.choice([0, 1, 2, 3])} seed={rng.randrange(1, 1 << 30)} '
             f'max_steps=3000 late={pt}']
    lines += ['T ' + ';'.join(p) for p in progs]
    lines.append('GO')
    return '\n'.join(lines)


def race_scenario(comp, rng, sid):
    """an explicit schedule prefix parks thread A after k of its quanta - i.e. between the load and the CAS of an
    acquisition, an upgrade, a TryLock*, PrepareRead's fallback ... - lets thread B run m quanta of short sections
    that change the lock word, and resumes A: drives the CAS-failure / re-check branches that free-running random
    schedules rarely reach.  A third thread keeps X for a while at the start in half of the Optimistic cases, so that
    PrepareRead is in its fallback when it is parked."""
    g = LockGen(comp, rng, nlocks=1)
    a_ops, b_ops, w_ops = [], [], []
    kind = rng.choice(['S', 'SIX', 'X', 'upg', 'upg'] + (['try', 'try', 'prep', 'prep', 'prep'] if comp == 'opt' else []))
    s0, i0, x0 = g.var(0, 'S'), g.var(0, 'SIX'), g.var(0, 'X')
    if kind in ('S', 'SIX', 'X'):
        v = g.var(0, kind)
        a_ops = [f'lock {kind} {v} 0', 'payrd 0', f'dtor {v}']
    elif kind == 'upg':
        a_ops = [f'lock SIX {i0} 0', f'upg {x0} {i0}', f'bool {x0}', f'paywr 0 {g.nextval()}', f'dtor {x0}']
    elif kind == 'try':
        o = g.var(0, 'Opt')
        m = rng.choice(['S', 'SIX', 'X'])
        v = g.var(0, m)
        a_ops = [f'getver {o} 0', f'try {m} {v} {o}', f'bool {v}', f'dtor {v}']
    else:
        c = g.var(0, 'Comp')
        # (no payload read here: under a non-owning composite guard a torn read is legitimate - it is what cverify rejects)
        a_ops = [f'prep {c} 0', f'bool {c}', f'cverify {c}', f'gver {c}', f'cverify {c}', f'dtor {c}']
    sb, xb = g.var(1, 'S'), g.var(1, 'X')
    for _ in range(rng.randrange(2, 6)):
        if comp == 'mcs' or rng.random() < 0.7:
            b_ops += [f'lock S {sb} 0', f'dtor {sb}']
        else:
            b_ops += [f'lock X {xb} 0', f'paywr 0 {g.nextval()}', f'dtor {xb}']
    sched = []
    writer = comp == 'opt' and kind in ('prep', 'try') and rng.random() < 0.6
    if writer:
        xw = g.var(2, 'X')
        hold = rng.choice([2, 4, 6, 10])
        w_ops = [f'lock X {xw} 0'] + [f'paywr 0 {g.nextval()}' for _ in range(hold)]
        if rng.random() < 0.5:
            w_ops += [f'dtor {xw}']
        else:
            # the exclusive section ends by a downgrade: the fallback then meets SIX without shared holders
            iw = g.var(2, 'SIX')
            w_ops += [f'dng {iw} {xw}', 'payrd 0', 'payrd 0', 'payrd 0', f'dtor {iw}']
        sched += [2] * 3                       # the writer takes X
        # A starts: its optimistic attempts see X; with 11 or more quanta (the harness builds with
        # CPP_UTILITY_SPINLOCK_RETRY_NUM=10) the attempts are exhausted and A is inside the locking fallback
        sched += [0] * rng.choice([rng.randrange(1, 8), 11 + rng.randrange(0, 4), 11 + rng.randrange(0, 4)])
        sched += [2] * (2 * hold + 2)          # the writer finishes (or downgrades)
    if writer and kind == 'prep':
        r1 = rng.random()
        if r1 < 0.4:
            sched += [0] * rng.choice([1, 1, 1, 2, 3])   # the fallback's load sees the free word; its CAS is next
        elif r1 < 0.7:
            # B is granted S first: the fallback's next load sees shared holders only (no X, no SIX)
            b_ops = [f'lock S {sb} 0', 'payrd 0', 'payrd 0', f'dtor {sb}'] + b_ops
            sched += [1] * rng.choice([2, 2, 3])
            sched += [0] * rng.choice([1, 2, 3])
        else:
            # the fallback's load sees the free word, then B takes X before the fallback's CAS
            b_ops = [f'lock X {xb} 0', f'paywr 0 {g.nextval()}', f'paywr 0 {g.nextval()}', f'dtor {xb}'] + b_ops
            sched += [0] * 1
            sched += [1] * rng.choice([2, 2, 3])
            sched += [0] * rng.choice([1, 2, 3, 4])
    else:
        sched += [0] * rng.randrange(1, 7)     # A up to somewhere inside its operation
    sched += [1] * rng.randrange(1, 9)         # B changes the word
    sched += [0] * rng.randrange(0, 3)
    sched += [1] * rng.randrange(0, 6)
    progs = [a_ops, b_ops, w_ops]
    pt = 3
    px = g.var(pt, 'X')
    progs.append([f'lock X {px} 0', f'dtor {px}'])
    kinds = ','.join(g.block * 4)
    lines = [f'SCEN {sid} comp={comp} nlocks=1 kinds={kinds} policy={rng.choice([0, 1, 2])} seed={rng.randrange(1, 1 << 30)} '
             f'max_steps=3000 late={pt}']
    lines += ['T ' + ';'.join(p) for p in progs]
    lines.append('S ' + ' '.join(map(str, sched)))
    lines.append('GO')
    return '\n'.join(lines)


def reader_writers_scenario(rng, sid):
    """OptimisticLock: two exclusive sections contend (the second LockX starts while the first is held and is granted
    after it commits), and an optimistic reader samples its version between the two commits and validates after the
    second - the history in which a version published twice (or a stale version carried by the second guard) makes a
    validation succeed across a committed section.  Explicit schedule prefix with randomised lengths."""
    g = LockGen('opt', rng, nlocks=1)
    x0, x1 = g.var(0, 'X'), g.var(1, 'X')
    o = g.var(2, 'Opt')
    s2 = g.var(2, 'S')
    end0 = rng.choice(['dtor', 'dtor', 'dng'])
    w0 = [f'lock X {x0} 0', f'paywr 0 {g.nextval()}']
    if end0 == 'dng':
        i0 = g.var(0, 'SIX')
        w0 += [f'dng {i0} {x0}', 'payrd 0', f'dtor {i0}']
    else:
        w0 += [f'dtor {x0}']
    w1 = [f'lock X {x1} 0', f'xver {x1}', f'paywr 0 {g.nextval()}', f'dtor {x1}']
    rd = [f'getver {o} 0', f'gver {o}'] + rng.choice([[f'verify {o}'], [f'try S {s2} {o}', f'bool {s2}', f'dtor {s2}'],
                                                        [f'verify {o}', f'verify {o}']])
    sched = [0] * 3                              # writer 0 takes X
    sched += [1] * rng.randrange(2, 5)           # writer 1 starts: its first look sees X
    sched += [0] * rng.choice([3, 3, 4, 5])      # writer 0 writes and commits (or downgrades)
    sched += [2] * rng.randrange(2, 4)           # the reader samples the version
    sched += [0] * rng.randrange(0, 4)
    sched += [1] * rng.randrange(5, 9)           # writer 1 is granted, writes, commits
    pt = 3
    px = g.var(pt, 'X')
    progs = [w0, w1, rd, [f'lock X {px} 0', f'dtor {px}']]
    kinds = ','.join(g.block * 4)
    lines = [f'SCEN {sid} comp=opt nlocks=1 kinds={kinds} policy={rng.choice([0, 1, 2])} seed={rng.randrange(1, 1 << 30)} '
             f'max_steps=3000 late={pt}']
    lines += ['T ' + ';'.join(p) for p in progs]
    lines.append('S ' + ' '.join(map(str, sched)))
    lines.append('GO')
    return '\n'.join(lines)


def prep_fallback_scenario(rng, sid):
    """OptimisticLock::PrepareRead inside its locking fallback: a writer holds X until the caller's optimistic attempts
    are exhausted (the harness builds with CPP_UTILITY_SPINLOCK_RETRY_NUM=10, so 11 loads), commits (or downgrades),
    and then - by an explicit schedule prefix - either the fallback's load sees the free word and another thread takes
    S / SIX / X before its CAS, or another thread is granted S / SIX first so that the fallback's load sees other
    holders only.  These are the exits of the fallback: own S grant, version of a word with shared holders, retry."""
    nlocks = 2 if rng.random() < 0.3 else 1
    g = LockGen('opt', rng, nlocks=nlocks)
    c = g.var(0, 'Comp')
    c2 = g.var(0, 'Comp', 1)
    tails = [[f'bool {c}', f'cverify {c}', f'gver {c}', f'cverify {c}', f'dtor {c}'],
             [f'bool {c}', f'dtor {c}'],
             # the (possibly owning) composite guard is move-constructed / move-assigned before it dies: the grant must be
             # released exactly once, through the guard that owns it now
             [f'mctor {c2} {c}', f'bool {c}', f'bool {c2}', f'cverify {c2}', f'dtor {c2}', f'dtor {c}'],
             [f'massign {c2} {c}', f'bool {c}', f'bool {c2}', f'dtor {c}', f'cverify {c2}', f'dtor {c2}'],
             [f'mctor {c2} {c}', f'dtor {c}', f'bool {c2}', f'dtor {c2}']]
    if nlocks == 2:
        # a guard of ANOTHER lock is move-assigned over the (possibly owning) guard: the old grant is released on its own lock
        tails += [[f'prep {c2} 1', f'massign {c} {c2}', f'bool {c}', f'bool {c2}', f'cverify {c}', f'dtor {c}', f'dtor {c2}'],
                  [f'prep {c2} 1', f'bool {c2}', f'massign {c2} {c}', f'bool {c2}', f'dtor {c2}', f'dtor {c}']] * 2
    a_ops = [f'prep {c} 0'] + rng.choice(tails)
    # reads inside the section the guard protects, then the validation: with a genuine shared grant nothing can be
    # committed in between, with an optimistic guard the validation must notice what was
    # (no payload reads here: under a non-owning composite guard they would be optimistic reads, which may legitimately be
    # torn; `getver` on an OptGuard is the scheduling point - it also waits for a writer that is inside)
    o = g.var(0, 'Opt')
    a_reader = [f'prep {c} 0', f'bool {c}', f'getver {o} 0', f'getver {o} 0', f'cverify {c}', f'getver {o} 0', f'cverify {c}',
                f'dtor {c}']
    sb, ib, xb = g.var(1, 'S'), g.var(1, 'SIX'), g.var(1, 'X')
    xw = g.var(2, 'X')
    hold = rng.choice([6, 8, 10])
    w_ops = [f'lock X {xw} 0'] + [f'paywr 0 {g.nextval()}' for _ in range(hold)]
    if rng.random() < 0.7:
        w_ops += [f'dtor {xw}']
    else:
        iw = g.var(2, 'SIX')
        w_ops += [f'dng {iw} {xw}', 'payrd 0', 'payrd 0', f'dtor {iw}']
    # the writer comes back for a second exclusive section while B may still be inside its section
    w_ops += [f'lock X {xw} 0', f'paywr 0 {g.nextval()}', f'paywr 0 {g.nextval()}', f'dtor {xw}']
    first = rng.choice(['S', 'S', 'S', 'SIX', 'X', 'Xc', 'Xc', 'own'])
    if first == 'Xc':
        # B commits a whole exclusive section between the fallback's load and its CAS: the CAS fails on a word that is
        # completely free again but carries another version
        b_ops = [f'lock X {xb} 0', f'paywr 0 {g.nextval()}', f'dtor {xb}']
    elif first == 'own':
        # nobody interferes with the fallback: it takes its shared grant; the owning guard is then moved, the moved-from
        # object dies, and the survivor is validated after the writer tried to come back
        b_ops = ['payrd 0'] if False else [f'lock S {sb} 0', 'payrd 0', f'dtor {sb}']
        o2 = g.var(0, 'Opt')
        a_ops = [f'prep {c} 0', f'mctor {c2} {c}', f'dtor {c}', f'getver {o2} 0', f'getver {o2} 0', f'cverify {c2}',
                 f'getver {o2} 0', f'cverify {c2}', f'bool {c2}', f'dtor {c2}']
    elif first == 'S':
        b_ops = [f'lock S {sb} 0'] + ['payrd 0'] * rng.choice([3, 8, 12]) + [f'dtor {sb}']
    elif first == 'SIX':
        b_ops = [f'lock SIX {ib} 0', 'payrd 0', 'payrd 0', f'dtor {ib}']
    else:
        b_ops = [f'lock X {xb} 0', f'paywr 0 {g.nextval()}', f'paywr 0 {g.nextval()}', f'dtor {xb}']
    for _ in range(rng.randrange(0, 3)):
        b_ops += [f'lock X {xb} 0', f'paywr 0 {g.nextval()}', f'dtor {xb}']
    sched = [2] * 3
    sched += [0] * (11 + rng.randrange(0, 4))
    sched += [2] * (2 * hold + 2)
    if first == 'own':
        sched += [0] * 3                          # load, CAS (owning guard), local code up to the next atomic operation
        sched += [2] * rng.choice([6, 7, 8])      # the writer asks for its second exclusive section
        sched += [0] * 8
    elif first == 'Xc':
        sched = [1] + sched                      # B's start quantum first, so that its section fits the window exactly
        sched += [0] * 1                         # the fallback's load sees the free word; its CAS is next
        sched += [1] * rng.choice([5, 5, 6])     # load, CAS, two payload stores, release (+ one more)
        sched += [0] * rng.choice([1, 2, 4])     # the CAS fails on a free word of the next version
        if rng.random() < 0.7:
            a_ops = a_reader
            sched += [2] * rng.choice([6, 7, 8])  # the writer's second exclusive section, while A is reading
            sched += [0] * 6
    elif rng.random() < 0.5:
        sched += [0] * 1                         # the fallback's load; its CAS is next
        sched += [1] * rng.choice([2, 2, 3])     # B is granted in between
        sched += [0] * rng.choice([1, 2, 3, 4])
    else:
        sched += [1] * rng.choice([2, 2, 3])     # B is granted first
        sched += [0] * rng.choice([1, 2, 3, 6])  # the fallback's load sees B's grant
    pt = 3
    px = g.var(pt, 'X')
    progs = [a_ops, b_ops, w_ops, [f'lock X {px} 0', f'paywr 0 {g.nextval()}', f'dtor {px}']]
    kinds = ','.join(g.block * 4)
    lines = [f'SCEN {sid} comp=opt nlocks={nlocks} kinds={kinds} policy={rng.choice([0, 1, 2])} seed={rng.randrange(1, 1 << 30)} '
             f'max_steps=3000 late={pt}']
    lines += ['T ' + ';'.join(p) for p in progs]
    lines.append('S ' + ' '.join(map(str, sched)))
    lines.append('GO')
    return '\n'.join(lines)


def make_scenarios(comp, seed, count, prefix):
    rng = random.Random(f'{comp}-{seed}')
    out = []
    for i in range(count):
        r0 = rng.random()
        if r0 < 0.3:
            out.append(staggered_scenario(comp, rng, f'{prefix}{i}'))
            continue
        if r0 < 0.36:
            out.append(samelock_scenario(comp, rng, f'{prefix}{i}'))
            continue
        if r0 < 0.48:
            out.append(race_scenario(comp, rng, f'{prefix}{i}'))
            continue
        if comp == 'opt' and r0 < 0.54:
            out.append(reader_writers_scenario(rng, f'{prefix}{i}'))
            continue
        if comp == 'opt' and r0 < 0.63:
            out.append(prep_fallback_scenario(rng, f'{prefix}{i}'))
            continue
        nlocks = 2 if rng.random() < 0.35 else 1
        g = LockGen(comp, rng, nlocks=nlocks)
        out.append(g.scenario(f'{prefix}{i}'))
    return out
