#!/usr/bin/env python3
"""MANIFEST.setup_cmd: build the framework offline from files on disk.
Regenerates Gen/ from /repo, builds the Lean library (all proofs) and the driver, builds the harnesses."""
import os
import sys
sys.path.insert(0, os.path.dirname(os.path.abspath(__file__)))
import common

def main():
    st = common.run_extract()
    import glob
    props = sorted('CppUtil.Props.' + os.path.basename(p)[:-5] for p in glob.glob(os.path.join(common.LEAN, 'CppUtil', 'Props', 'C[0-9][0-9]*.lean')))
    ok, out = common.lake_build([])
    if ok:
        ok, out2 = common.lake_build(props)   # all property modules (and the proofs they import)
        out += out2
    print(out[-3000:])
    if not ok:
        print('lake build failed')
        return 1
    for kind in common.HARNESS_KINDS:
        try:
            print('harness', kind, common.build_harness(kind))
        except common.FrameworkError as e:
            print('harness build failed:', str(e)[-2000:])
            return 1
    return 0

if __name__ == '__main__':
    sys.exit(main())
