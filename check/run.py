#!/usr/bin/env python3
"""Entry point of every registered check:  python3 check/run.py <ID> [--tier quick|thorough] [--replay FILE]

For property <ID> one run does (DESIGN.md section 8.2):
  1. tie G: regenerate lean/CppUtil/Gen/* from /repo's working tree;
  2. build CppUtil.Props.<ID> (the property theorems instantiated at the regenerated parameters)
     and the driver; audit sources and axioms;
  3. tie C: build the harness from /repo's working tree, run scenarios on the real code, replay
     them on the model, compare quantum by quantum, run the property's monitors on the
     implementation's events;
  4. decide, write evidence/<ID>.json, print VIOLATION / KNOWN-FINDING lines.
Exit codes: 0 held, 1 violation, 2 the tree does not build normally, 3 framework failure."""
import argparse
import json
import os
import random
import sys
import time
import traceback

sys.path.insert(0, os.path.dirname(os.path.abspath(__file__)))
import common  # noqa: E402
from common import FrameworkError  # noqa: E402
import props  # noqa: E402


def main():
    ap = argparse.ArgumentParser()
    ap.add_argument('pid')
    ap.add_argument('--tier', default=os.environ.get('VERIF_TIER', 'quick'))
    ap.add_argument('--replay')
    args = ap.parse_args()
    seed = int(os.environ.get('VERIF_SEED', '1'))
    pid = args.pid
    if pid not in props.PROPS:
        print(f'unknown property {pid}')
        return 3
    t0 = time.time()
    try:
        chk = props.PROPS[pid](pid, args.tier, seed)
        if args.replay:
            return chk.replay(args.replay)
        rc = chk.run()
        chk.write_evidence(time.time() - t0)
        return rc
    except FrameworkError as e:
        print(f'FRAMEWORK-ERROR property={pid}: {e}')
        return 3
    except Exception:
        traceback.print_exc()
        print(f'FRAMEWORK-ERROR property={pid}: unexpected exception')
        return 3


if __name__ == '__main__':
    sys.exit(main())
