#!/usr/bin/env python3
"""usage: seedmeta.py <name> <pid> <needs-to-manifest text> : write seeded/<name>/meta.json from confirmation.json and
remove the scratch worktree /tmp/seed_<name>"""
import json, os, subprocess, sys
name, pid, need = sys.argv[1], sys.argv[2], sys.argv[3]
d = f'/verif/seeded/{name}'
c = json.load(open(f'{d}/confirmation.json'))
m = {"property": pid, "breaks": pid, "round": 5 if name.endswith("e") else 4 if name.endswith("d") else 3 if name.endswith("c") else (2 if name.endswith("b") else 1), "needs_to_manifest": need,
     "produced_by": "independent sub-agent given only the property text (round 2: plus the code area to avoid) and a scratch worktree",
     "confirmed_by_me": {"patch_applies_to_repo_head": c["applies_to_repo_head"],
                         "existing_test_suite_passes_with_change": c["ctest_with_change"],
                         "demo_exit_code_with_change": c["demo_with_change_rc"],
                         "demo_exit_code_without_change": c["demo_without_change_rc"],
                         "commands": ["cmake --build _build && ctest --test-dir _build -j8 --timeout 900 (in the scratch worktree, change applied)",
                                      "bash _seed/run_demo.sh (change applied) ; git apply -R _seed/patch.diff ; bash _seed/run_demo.sh ; git apply _seed/patch.diff",
                                      "git -C /repo apply patch.diff ; python3 check/run.py <ID> ; git -C /repo checkout -- ."]},
     "checks_run_against_it": c["checks"]}
json.dump(m, open(f'{d}/meta.json', 'w'), indent=1)
subprocess.run(f'git -C /repo worktree remove --force /tmp/seed_{name}; git -C /repo worktree prune', shell=True)
print('meta written; worktrees:', subprocess.run('git -C /repo worktree list', shell=True, capture_output=True, text=True).stdout.strip())
