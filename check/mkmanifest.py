#!/usr/bin/env python3
"""Regenerate MANIFEST.json from the table of implemented checks (check/props.py) and the
per-property texts below. Run after adding a check."""
import json
import os
import sys

sys.path.insert(0, os.path.dirname(os.path.abspath(__file__)))
import props

VERIF = os.path.dirname(os.path.dirname(os.path.abspath(__file__)))

ALL = [f'C{i:02d}' for i in range(1, 21)]

TEXT = {
    'C01': dict(
        technique='Lean 4 inductive invariant (word = exact count of live grants) over a parametric small-step model; '
                  'tie G (constants, orders regenerated; bit-field Specs by bv_decide) + tie C (step-level correspondence with the real code)',
        text='Theorems c01_pess / c01_opt: in every reachable state of the word-lock model at the regenerated parameters '
             '(any number of requests, any client behaviour, any interleaving, arbitrary pre-load values, spurious CAS failures) '
             'no two live grants conflict under the documented matrix. The model is tied to the source by regenerated constants/orders '
             'and by replaying, on the model, every schedule the harness executes on the real guard classes; the exclusion and torn-read '
             'monitors run on the implementation events.',
        note='Trusted: Lean kernel + propext/Classical.choice/Quot.sound + bv_decide native axioms of the bit lemmas; extractor, shim, scheduler; '
             'hand-written model control flow (validated by correspondence, not verified). MCSLock: covered by correspondence + monitors, theorem staged (DESIGN 5.3).'),
}


def main():
    checks = []
    na = []
    for pid in ALL:
        if pid in props.PROPS:
            t = TEXT.get(pid, {})
            cls = props.PROPS[pid]
            checks.append({
                'property_id': pid,
                'quick_cmd': f'python3 check/run.py {pid} --tier quick',
                'thorough_cmd': f'python3 check/run.py {pid} --tier thorough',
                'evidence_file': f'/verif/evidence/{pid}.json',
                'replay_cmd_template': f'python3 check/run.py {pid} --replay {{path}}',
                'engine': 'lean-models-and-proofs',
                'level_claimed': {
                    'category': 'proof',
                    'text': t.get('text', cls.__doc__ or ''),
                    'design_ref': f'DESIGN.md section 6 {pid}',
                },
                'level_note': t.get('note', ''),
                'technique': t.get('technique', 'Lean 4 proof + correspondence check'),
            })
        else:
            na.append({'property_id': pid, 'reason': 'check not built yet in this session (planned: see DESIGN.md section 6); not claimed'})
    served = [c['property_id'] for c in checks]
    m = {
        'version': 1,
        'setup_cmd': 'python3 check/setup.py',
        'hooks': {
            'guard': 'CPP_UTILITY_VERIF',
            'enable': 'no source hook exists: the harness force-includes harness/shim.hpp (g++ -include) when compiling '
                      "/repo's translation units; the guard name is reserved and unused",
            'baseline_off_cmd': 'cmake --build /repo/_build && ctest --test-dir /repo/_build -j8 --timeout 900',
            'source_commits': [],
            'add_only': True,
        },
        'engines': [
            {'name': 'lean-models-and-proofs', 'path': 'lean/', 'serves_properties': served,
             'kind_free_text': 'Lean 4 models (Model/), proofs (Proofs/), property theorems at regenerated parameters (Props/)'},
            {'name': 'extractor', 'path': 'extract/', 'serves_properties': served,
             'kind_free_text': 'tie G: regenerates constants, memory orders and class facts from /repo into lean/CppUtil/Gen'},
            {'name': 'harness+driver', 'path': 'harness/', 'serves_properties': served,
             'kind_free_text': 'tie C: shim-instrumented real code under a baton scheduler, replayed on the Lean model by lean/Driver (cudrv)'},
        ],
        'checks': checks,
        'notes': 'Technique family: machine-checked proof in Lean 4 (DESIGN.md). Every check = proof obligations at regenerated '
                 'parameters + step-level correspondence of model and implementation + monitors on implementation traces.',
        'not_applicable': na,
    }
    with open(os.path.join(VERIF, 'MANIFEST.json'), 'w') as f:
        json.dump(m, f, indent=1)
    print(f'{len(checks)} checks, {len(na)} not claimed')


if __name__ == '__main__':
    main()
