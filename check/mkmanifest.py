#!/usr/bin/env python3
"""Regenerate MANIFEST.json from the table of implemented checks (check/props.py) and the
per-property texts below. Run after adding a check."""
import json
import os
import sys

sys.path.insert(0, os.path.dirname(os.path.abspath(__file__)))
import props

VERIF = os.path.dirname(os.path.dirname(os.path.abspath(__file__)))

ALL = [f'C{i:02d}' for i in range(1, 21)]

TRUST = 'Trusted: Lean kernel + propext/Classical.choice/Quot.sound (+ bv_decide native axioms of the bit lemmas where listed in the evidence); extractor, shim, scheduler, harness; hand-written model control flow (validated by step-level correspondence, not verified). '

WL = ('Lean 4 theorems over the parametric word-lock small-step model (all action lists = all programs/interleavings), '
      'instantiated at parameters regenerated from the source (tie G: constants, per-site memory orders; bit-field Specs by bv_decide); '
      'tie C: step-level replay of every harness schedule of the real code on the same model; Lean monitors on implementation events find the failing input')
TH = ('Lean 4 theorems over the IDManager / epoch models (incl. the interleaving models EpochProto / EpochLists: inductive invariants over all schedules); '
      'tie G (constants, destructor shape, orders regenerated); '
      'tie C: thread-level interpreter replayed quantum by quantum against the shim-instrumented real code, with the protocol models run in lockstep '
      'on every replayed trace; Lean monitors on implementation events')
ZP = ('Lean 4 theorems over the Zipf model (search over any strict total order; tables over any ordered field); tie G (constants, class facts regenerated); '
      'tie C: bit comparison of the Float instance of the same model with the real classes on generated cases incl. breakpoint-exact variates')

TEXT = {
    'C01': dict(technique=WL,
        text='c01_pess / c01_opt: in every reachable state (any number of requests, any interleaving, arbitrary pre-load values, spurious CAS failures) '
             'no two live grants conflict; c01_word_counts_*: the word is the exact count of live grants. c01_mcs: the same for every reachable state of the step-faithful MCS model '
             '(protocol invariant over queue groups, word meanings and node ownership; WordSpecs at regenerated constants by bv_decide). '
             'Guard level (PessimisticLock / OptimisticLock): c01_client_guards_compatible_pess/_opt - in every state reachable by any schedule of any well-formed client program, '
             'two guards that own grants on the same lock are of compatible classes (guard algebra of C07 + reachable_locks: every lock object of a reachable client state is a reachable state of the core model).',
        note=TRUST),
    'C02': dict(technique=WL,
        text='c02_blocked_*: an agent whose acquisition/upgrade step cannot succeed coexists with a live conflicting holder; c02_solo_acquire; c02_quiescent_free_*: no holder => word free; c02_mcs_*: on MCSLock every failing wait condition has an unfinished request ahead in the queue as witness and the front of the queue passes. '
             'c02_fair_termination_pess/_opt: k agents each requesting its mode once and releasing it, any modes, every schedule of more than 3k(2k+1) rounds ends with all requests granted and released and the lock free (potential argument over the same lock model); c02_fair_termination_conv_*: the same with agents that upgrade (SIX->X) or downgrade (X->SIX); c02_fair_termination_programs_*: threads issuing sequences of such requests on one lock. '
             'Guard level: c02_client_quiescent_lock_free_pess/_opt - after any schedule of any well-formed client program, once all threads have finished and all guards are gone, '
             'every lock word is completely free and a fresh LockX is admitted at once (guard algebra + reachable_locks + c02_quiescent_free_*). '
             'Dynamic: stuck detection under fair policies + final LockX probe on every lock (found F1, F3).',
        note=TRUST + 'Fair termination for MCSLock is not a Lean theorem (MCS: per-state witnesses c02_mcs_*; correspondence + stuck monitor).'),
    'C03': dict(technique=WL,
        text='c03_window: if validation succeeds then no X holder existed and no X-end occurred at any moment of the window (NoRepublish hypothesis shown necessary by example); '
             'c03_check_iff, c03_decisive_read, c03_trylock_sound. OptMon monitor checks guard-level bookkeeping on implementation traces.',
        note=TRUST + 'Guard-object bookkeeping (client layer) by correspondence + monitor.'),
    'C04': dict(technique=TH,
        text='c04_protocol / c04_protocol_min: on the interleaving model of the epoch protocol (any capacity, any number of threads with ID reuse, every schedule of the atomic '
             'steps of claim / exit / CreateEpochGuard / ~EpochGuard / ForwardGlobalEpoch) every guard complete at the start of a forward and alive when it returns is in the '
             'vector published for the new epoch and min <= its epoch; proto_must_start / proto_must_kept define the quantified guards; c04_protocol_fails_with_original_exit_order '
             'shows the dependence on the exit order (regenerated). Known finding F10 (nested guards = premise of the theorem).',
        note=TRUST + 'The protocol model is tied to the thread-level model by runtime lockstep, not by a proof.'),
    'C05': dict(technique=TH,
        text='c05_unique / c05_in_range / c05_stable over the IDManager model: any capacity, any number of threads, any probe start, every interleaving of load/exchange/exit steps. '
             'Outside the model (tested, not proved): a static-initialisation probe built without the shim checks that an ID obtained inside a global constructor stays reserved.',
        note=TRUST),
    'C06': dict(technique=ZP,
        text='c06_inverse_cdf (= search_spec): for any strict total order and any monotone table the search returns the least index whose entry is >= the variate; c06_in_range; c06_one_bin; c06_switch. '
             'Monotonicity of the floating-point tables is compared/tested, not proved; known findings F7, F8.',
        note=TRUST + 'Float arithmetic is compared bit for bit, never reasoned about.'),
    'C07': dict(technique=WL,
        text='Core: c07_release_enabled_iff, c07_release_finishes, c07_done_absorbing, c07_release_once (no double release, release only when held). '
             'Guard classes of PessimisticLock / OptimisticLock: inductive guard-algebra invariant of the client model WClient for every well-typed program '
             '(any number of threads, locks, guard variables; all 17 instructions) and every schedule (step_inv, runSched_inv): c07_client_owner_holds(_at_boundary), '
             'c07_client_one_owner, c07_client_optguard_owns_nothing, c07_client_no_orphan, c07_client_quiescent, c07_client_release_enabled, c07_client_step_enabled; '
             'the premise WF is executable (wfB, wfB_sound) and evaluated on every replayed scenario. The client model is the one compared quantum by quantum with the real guard classes; '
             'operator bool is additionally compared with an API-level ownership ghost (found F1).',
        note=TRUST + 'Guard classes of MCSLock (MClient) and the version fields of the guards have no theorem (correspondence + monitors).'),
    'C08': dict(technique=WL + '; vector-clock happens-before invariant',
        text='c08_pess / c08_opt: with the regenerated order table (Adequate closed by rfl: c08_*_orders) every granted section is above every ended conflicting section in the vector-clock semantics; '
             'c08_mcs_orders + hb monitor on all traces for MCS (found F5).',
        note=TRUST + 'Executions whose reads return the newest value; synchronises-with from declared orders.'),
    'C09': dict(technique=WL,
        text='c09_version_discipline (version changes only at X end and becomes the announced value), c09_xguard_version, c09_release_word, c09_downgrade_word (all 2^32 versions, bv_decide). '
             'XGuard new_ver bookkeeping by correspondence + XB/XE monitor.',
        note=TRUST),
    'C10': dict(technique=WL,
        text='Guard level: c10_client_no_other_sixx_pess/_opt - in every reachable state of the client model no two guards of class SIX / X own grants on one lock (from c01_client_guards_compatible_*). '
             'c10_no_other_sixx_*: during a SIX/X tenure no other SIX/X grant; c10_no_gap: conversions keep the grant; c10_upgrade_alone_*: upgrade granted only without S holders; c10_mcs from the MCS protocol invariant.',
        note=TRUST),
    'C11': dict(technique='Lean 4 protocol invariant of the step-faithful MCS model => no overtaking in queue order; bit-level lemmas at regenerated constants (bv_decide); tie C: correspondence; FIFO monitor on every implementation trace',
        text='c11_no_overtake: in every reachable state of the step-faithful MCS model no request holds a grant while a conflicting request ahead of it in the queue is unfinished; '
             'c11_queue_is_arrival_order: the ghost queue is appended at the request\'s first write to the lock object and shrinks only at the front. Lean fifo monitor on implementation events.',
        note=TRUST),
    'C12': dict(technique='Lean 4 protocol invariant of the step-faithful MCS model (node ownership => no access to freed nodes) + bit-level lemmas at regenerated constants (bv_decide); tie C: correspondence with node accounting; node monitor',
        text='c12_mcs_no_use_after_free, c12_mcs_live_nodes_accounted (every live node is a cached spare or the node of an unfinished request), c12_mcs_no_leak_at_quiescence — every reachable state; c12_unlockS_recycle_test etc.; alloc/free accounting monitor on implementation traces (found F2).',
        note=TRUST),
    'C13': dict(technique=WL,
        text='c13_version_result (non-owning result read from a word without X), c13_shared_fallback / c13_cas_from_noX (owning result by CAS from a word with no X); '
             'c13_client_owning_composite_holds_shared: in every reachable state of the client model an owning CompositeGuard points at a request holding S on its lock, exclusively '
             '(guard algebra, C07). Prepare monitor, composite-guard validation monitor and guard-level monitors on traces.',
        note=TRUST),
    'C14': dict(technique=TH,
        text='c14_all_exited_all_free, c14_flag_has_holder, c14_release_clears, c14_solo_claim_succeeds; c14_claim_returns: bounded waiting under every interleaving - with at least as many free IDs as '
             'threads in the claim loop (nobody inside the exit path), a claimer owns an ID after at most claimers*(n+2)+n+2 of its own atomic steps whatever the others do (potential argument, Proofs/IdMgrLive.lean); '
             'c14_accessors_as_modelled (tie G: shapes of HasID/GetID/GetHeartBeat/SetID). Claimers racing with exiting threads: probing-progress monitor (4N+4 bound) on oversubscribed scenarios.',
        note=TRUST),
    'C15': dict(technique=TH,
        text='c15_lifetime (token alive iff between claim and expiry), c15_free_slot_all_expired, c15_unexpired_unique, c15_exit_order (regenerated destructor shape), '
             'c15_counterexample_original_order (the pre-fix order violates it; F4 fixed).',
        note=TRUST),
    'C16': dict(technique=TH,
        text='c16_initial, c16_min_le_cur, c16_contains_cur_next, c16_quiescent, c16_head_is_new; for every interleaving (EpochProto): c16_protocol_count (G = initial + completed forwards), '
             'c16_protocol_step (only the coordinator moves G, by exactly one), c16_protocol_min_le_later_cur, c16_protocol_quiescent (forward without guards publishes [cur+1, cur]); '
             'c17_protocol_forward_enabled (the list handling of a forward never blocks).',
        note=TRUST + 'The protocol model is tied to the thread-level model by runtime lockstep, not by a proof.'),
    'C17': dict(technique=TH,
        text='c17_protocol / c17_protocol_stable: on the interleaving model with list nodes (EpochLists) every complete guard finds, by the lookup of GetProtectedEpochs, the vector published '
             'for its epoch (strictly descending, head = epoch, contains epoch-1), and the very same vector for as long as it lives, whatever the coordinator does (node creation, pruning); '
             'premise: no stale EnterEpoch store = known finding F6 (lists_stale_premise_needed reproduces F6 on the model). c17_list_shape, c17_read_back, sequential histories (c17_sequential_*).',
        note=TRUST + 'The protocol model is tied to the thread-level model by runtime lockstep, not by a proof; the lookup walk is one atomic step of the model.'),
    'C18': dict(technique=ZP,
        text='c18_exact_entries / c18_exact_monotone / c18_one_bin / c18_approx_equals_exact / c18_approx_last_is_one over any ordered field. "Up to rounding" and "within 0.01" are TESTS '
             '(bit comparison, long double reference); known finding F9, F11 fixed.',
        note=TRUST + 'Uses single Mathlib modules in Proofs/ZipfTable.lean.'),
    'C19': dict(technique=ZP,
        text='c19_class_facts (regenerated: operator() const, no mutable/static state but the distribution, both ctors throw), c19_function_of_table_and_variate, c19_table_function_of_params; purity runs (copies, moves, threads).',
        note=TRUST),
    'C20': dict(technique=TH,
        text='c20_published_exact (published list = distinct {new, prev, pins} descending), c20_published_unique, c20_min_is_smallest; c20_history_total / c20_forward_after_history / c20_prune_exact: every sequential '
             'history runs to completion, the pruning walk keeps exactly the wanted nodes plus the oldest (node bound); c17_protocol_forward_enabled: the walk terminates in every interleaving; destructor by monitors on allocation events.',
        note=TRUST),
}


def main():
    checks = []
    na = []
    for pid in ALL:
        if pid in props.PROPS:
            t = TEXT.get(pid, {})
            cls = props.PROPS[pid]
            checks.append({
                'property_id': pid,
                'quick_cmd': f'python3 check/run.py {pid} --tier quick',
                'thorough_cmd': f'python3 check/run.py {pid} --tier thorough',
                'evidence_file': f'/verif/evidence/{pid}.json',
                'replay_cmd_template': f'python3 check/run.py {pid} --replay {{path}}',
                'engine': 'lean-models-and-proofs',
                'level_claimed': {
                    'category': 'proof',
                    'text': t.get('text', cls.__doc__ or ''),
                    'design_ref': f'DESIGN.md section 6 {pid}',
                },
                'level_note': t.get('note', ''),
                'technique': t.get('technique', 'Lean 4 proof + correspondence check'),
            })
        else:
            na.append({'property_id': pid, 'reason': 'no check registered (see DESIGN.md)'})
    served = [c['property_id'] for c in checks]
    m = {
        'version': 1,
        'setup_cmd': 'python3 check/setup.py',
        'hooks': {
            'guard': 'CPP_UTILITY_VERIF',
            'enable': 'no source hook exists: the harness force-includes harness/shim.hpp (g++ -include) when compiling '
                      "/repo's translation units; the guard name is reserved and unused",
            'baseline_off_cmd': 'cmake --build /repo/_build && ctest --test-dir /repo/_build -j8 --timeout 900',
            'source_commits': [],
            'add_only': True,
        },
        'engines': [
            {'name': 'lean-models-and-proofs', 'path': 'lean/', 'serves_properties': served,
             'kind_free_text': 'Lean 4 models (Model/), proofs (Proofs/), property theorems at regenerated parameters (Props/)'},
            {'name': 'extractor', 'path': 'extract/', 'serves_properties': served,
             'kind_free_text': 'tie G: regenerates constants, memory orders and class facts from /repo into lean/CppUtil/Gen'},
            {'name': 'harness+driver', 'path': 'harness/', 'serves_properties': served,
             'kind_free_text': 'tie C: shim-instrumented real code under a baton scheduler, replayed on the Lean model by lean/Driver (cudrv)'},
        ],
        'checks': checks,
        'notes': 'Technique family: machine-checked proof in Lean 4 (DESIGN.md). Every check = proof obligations at regenerated '
                 'parameters + step-level correspondence of model and implementation + monitors on implementation traces.',
        'not_applicable': na,
    }
    with open(os.path.join(VERIF, 'MANIFEST.json'), 'w') as f:
        json.dump(m, f, indent=1)
    print(f'{len(checks)} checks, {len(na)} not claimed')


if __name__ == '__main__':
    main()
