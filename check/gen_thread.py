"""Scenario generator for IDManager / EpochManager: histories of thread start / exit (more threads than
IDs, all probe starts), guard creation / destruction, GetProtectedEpochs, and one coordinator
calling ForwardGlobalEpoch (including runs across the 256-epoch list-node boundaries)."""
import random


class ThreadGen:
    def __init__(self, rng, cap):
        self.rng = rng
        self.cap = cap

    def worker(self, t, nvars_per, kind):
        """kind: 'id' (IDManager only) or 'epoch'"""
        r = self.rng
        ops = [f'probe {r.randrange(self.cap)}']
        base = t * nvars_per
        if kind == 'id':
            if r.random() < 0.3:
                # the thread's first IDManager call is GetHeartBeat (the order in which the thread-local objects of the
                # implementation come into existence, and hence die, may depend on it)
                ops += ['hbget', 'gid', 'hbget']
            else:
                ops.append('gid')
                if r.random() < 0.7:
                    ops.append('hbget')
            for _ in range(r.randrange(0, 3)):
                ops.append(r.choice(['gid', 'hbget', 'gid']))
            if r.random() < 0.5:
                ops.append(f'hold {r.randrange(10, 90)}')   # keep the ID while others start and look for one
            return ops
        if r.random() < 0.5:
            ops += ['gid', 'hbget']
        held = []
        for _ in range(r.randrange(1, 5)):
            c = r.random()
            if not held and c >= 0.6 and c < 0.85:
                c = r.random() * 0.6
            free = [v for v in range(base, base + nvars_per) if v not in held]
            if held and not getattr(self, 'nested_ok', False):
                free = []   # one guard per thread at a time (nested guards only in a few marked scenarios)
            elif held and r.random() < 0.4:
                free = list(held)[:1]   # marked scenario: create a guard into a variable that still holds one (move assignment over a live guard)
            if c < 0.3 and free:
                v = r.choice(free)
                ops.append(f'guard {v}')
                if v not in held:
                    held.append(v)
                if r.random() < 0.5:
                    ops.append(f'gepoch {v}')
            elif c < 0.6 and free:
                v = r.choice(free)
                ops.append(f'gpe {v}')
                if v not in held:
                    held.append(v)
                if r.random() < 0.7:
                    ops.append(f'relist {v}')
            elif c < 0.85 and held:
                v = held.pop(r.randrange(len(held)))
                if r.random() < 0.5:
                    ops.append(f'relist {v}')
                ops.append(f'unguard {v}')
            else:
                ops.append(r.choice(['cur', 'min', 'min;cur']))
        for v in held:
            if r.random() < 0.6:
                ops.append(f'relist {v}')
            ops.append(f'unguard {v}')
        return ops

    def coordinator(self, long_run):
        r = self.rng
        ops = []
        if long_run:
            # walk up to just below a list-node boundary, then take small steps across it
            ops.append(f'fwd {r.choice([250, 253, 254, 255, 506, 510])}')
        for _ in range(r.randrange(2, 7)):
            ops.append(r.choice(['fwd', 'fwd', 'fwd 2', 'fwd 3', 'cur', 'min']))
        ops += ['fwd', 'cur', 'min']
        return ops

    def scenario(self, sid, kind='epoch', long_run=False, sequential=False):
        r = self.rng
        nvars_per = 2
        if kind == 'id':
            nworkers = r.choice([self.cap, self.cap + 1, self.cap + 2, 2 * self.cap])
        else:
            # C04/C20 quantify over "up to the ID capacity" workers (one slot may be the coordinator's)
            nworkers = r.choice([1, 2, self.cap, self.cap + 1])
            if sequential:
                nworkers = r.randrange(1, max(2, self.cap))  # C20: up to capacity-1 threads, nobody waits for an ID
        self.nested_ok = (not sequential) and r.random() < 0.06
        progs = [self.worker(t, nvars_per, kind) for t in range(nworkers)]
        ncoord = None
        if kind != 'id':
            ncoord = len(progs)
            progs.append(self.coordinator(long_run))
        policy = 4 if sequential else r.choice([0, 1, 1, 2, 2, 3])
        seed = r.randrange(1, 1 << 30)
        steps = 40000 if long_run else 6000
        head = (f'SCEN {sid} comp=thread nvars={nvars_per * max(1, nworkers)} policy={policy} seed={seed} '
                f'max_steps={steps}' + (' seq=1' if sequential else ''))
        lines = [head] + ['T ' + ';'.join(p) for p in progs]
        if sequential:
            # run whole instructions one after another: thread order chosen up front
            pass
        lines.append('GO')
        return '\n'.join(lines)


def staircase_scenario(rng, sid, cap):
    """fully serialised history (await / bump turn counter): worker j pins an epoch after the coordinator's
    (j+1)-th hop over a range boundary; the pins are released in a random order, with further hops in
    between - kept nodes then sit between the head and an out-dated node of the chain"""
    nworkers = min(rng.randrange(2, 4), max(1, cap))
    events = []          # (thread, instruction)
    coord = nworkers
    order = list(range(nworkers))
    events.append((coord, f'fwd {rng.choice([200, 300, 301])}'))
    for j in order:
        events.append((j, f'guard {2 * j}'))
        events.append((coord, f'fwd {rng.choice([255, 256, 257, 300])}'))
    rel = order[:]
    rng.shuffle(rel)
    for j in rel:
        if rng.random() < 0.5:
            events.append((j, f'gepoch {2 * j}'))
        events.append((j, f'unguard {2 * j}'))
        events.append((coord, f'fwd {rng.choice([1, 2, 3, 256])}'))
    events.append((coord, 'fwd 2'))
    progs = [[f'probe {rng.randrange(cap)}'] for _ in range(nworkers)] + [[]]
    for turn, (t, ins) in enumerate(events):
        progs[t] += [f'await {turn}', ins, 'bump']
    progs[coord] += ['min', 'cur']
    head = (f'SCEN {sid} comp=thread nvars={2 * nworkers} policy={rng.choice([0, 1, 2])} seed={rng.randrange(1, 1 << 30)} '
            f'max_steps=400000 seq=1')
    return '\n'.join([head] + ['T ' + ';'.join(p) for p in progs] + ['GO'])


def boundary_scenario(rng, sid, cap):
    """fully serialised history with guards pinned exactly at / next to the first and last epoch of a
    256-epoch range (B-1, B, B+1, B+255, B+256 for B = 512, 768), held while the coordinator crosses one or two
    further range boundaries (257, 258, 513 ... forwards), then the list is read again through the guard"""
    nworkers = min(rng.randrange(1, 4), max(1, cap))
    coord = nworkers
    events = []
    cur = 256
    targets = sorted(rng.choice([512, 768]) + rng.choice([-1, 0, 0, 0, 1, 255, 256]) + 256 * j for j in range(nworkers))
    for j, e in enumerate(targets):
        if e > cur:
            events.append((coord, f'fwd {e - cur}'))
            cur = e
        events.append((j, rng.choice([f'guard {2 * j}', f'gpe {2 * j}'])))
    n = rng.choice([255, 256, 257, 258, 300, 513, 600])
    events.append((coord, f'fwd {n}'))
    cur += n
    rel = list(range(nworkers))
    rng.shuffle(rel)
    for j in rel:
        events.append((j, f'gepoch {2 * j}'))
        events.append((j, f'relist {2 * j}'))
        if rng.random() < 0.6:
            events.append((coord, f'fwd {rng.choice([1, 2, 255, 256, 257])}'))
            events.append((j, f'relist {2 * j}'))
        events.append((j, f'unguard {2 * j}'))
        events.append((coord, f'fwd {rng.choice([1, 2, 3])}'))
    events.append((coord, 'fwd 2'))
    progs = [[f'probe {rng.randrange(cap)}'] for _ in range(nworkers)] + [[]]
    for turn, (t, ins) in enumerate(events):
        progs[t] += [f'await {turn}', ins, 'bump']
    progs[coord] += ['min', 'cur']
    head = (f'SCEN {sid} comp=thread nvars={2 * nworkers} policy={rng.choice([0, 1, 2])} seed={rng.randrange(1, 1 << 30)} '
            f'max_steps=600000 seq=1')
    return '\n'.join([head] + ['T ' + ';'.join(p) for p in progs] + ['GO'])


def bigcap_scenario(rng, sid, cap):
    """a full house at a large capacity (word boundaries of packed reservation flags, 32 / 64): `cap` workers take every
    ID and keep it, a few of them exit, and late workers start while the others are still running"""
    nleave = rng.choice([1, 3, 8])
    leavers = set(rng.sample(range(cap), nleave))
    progs = []
    for t in range(cap):
        ops = [f'probe {rng.randrange(cap)}', 'gid', 'hbget']
        ops.append(f'hold {6 if t in leavers else 120}')
        ops.append('gid')
        progs.append(ops)
    for t in range(nleave + 1):
        progs.append([f'probe {rng.randrange(cap)}', 'hold 40', 'gid', 'hbget', 'hold 5', 'gid'])
    head = f'SCEN {sid} comp=thread nvars=2 policy=0 seed={rng.randrange(1, 1 << 30)} max_steps=200000'
    return '\n'.join([head] + ['T ' + ';'.join(p) for p in progs] + ['GO'])


def stall_scenario(rng, sid, cap):
    """an explicit schedule prefix stalls worker A after `a` of its quanta - i.e. between any two atomic steps of
    GetProtectedEpochs / CreateEpochGuard (ID claim, expired() test, heartbeat assignment, load of the global epoch,
    store of the pinned epoch, the list lookup) - while the coordinator forwards over zero, one or two 256-epoch
    boundaries, a second worker B pins an epoch in between, and the coordinator forwards again; then A resumes.
    A stall between the load and the store is known finding F6; the others must be harmless."""
    per_fwd = 3 + 2 * cap
    a = rng.choice([3, 4, 5, 6, 7, 7, 7, 8, 8])
    n1 = rng.choice([1, 2, 200, 257, 300, 300])
    n2 = rng.choice([1, 2, 257, 300, 300, 520])
    pre = rng.choice([0, 0, 10, 250, 255])
    progA = [f'probe {rng.randrange(cap)}', 'gpe 0', 'relist 0', 'gepoch 0', 'relist 0', 'unguard 0']
    progB = [f'probe {rng.randrange(cap)}', rng.choice(['guard 2', 'gpe 2']), 'hold 3', 'relist 2' if rng.random() < 0.5 else 'cur', 'unguard 2']
    coord = ([f'fwd {pre}'] if pre else []) + [f'fwd {n1}', f'fwd {n2}', 'fwd 2', 'min', 'cur']
    sched = []
    if pre:
        sched += [2] * (pre * per_fwd + 2)
    sched += [0] * a
    sched += [2] * (n1 * per_fwd + 1)
    sched += [1] * rng.choice([0, 9, 9, 12])
    sched += [2] * (n2 * per_fwd + 1)
    head = (f'SCEN {sid} comp=thread nvars=4 policy={rng.choice([0, 1, 2])} seed={rng.randrange(1, 1 << 30)} '
            f'max_steps=60000')
    return '\n'.join([head, 'T ' + ';'.join(progA), 'T ' + ';'.join(progB), 'T ' + ';'.join(coord),
                      'S ' + ' '.join(map(str, sched)), 'GO'])


def deep_scenario(rng, sid, cap, sequential):
    if sequential and rng.random() < 0.6:
        return boundary_scenario(rng, sid, cap) if rng.random() < 0.5 else staircase_scenario(rng, sid, cap)
    """guards pinned in different 256-epoch ranges while the coordinator walks over several range boundaries:
    exercises the pruning walk with kept nodes between the head and an out-dated node"""
    nworkers = rng.randrange(1, max(2, cap))
    progs = []
    for t in range(nworkers):
        ops = [f'probe {rng.randrange(cap)}']
        for _ in range(rng.randrange(1, 4)):
            v = 2 * t
            ops += [rng.choice([f'guard {v}', f'gpe {v}'])]
            if rng.random() < 0.5:
                ops.append('cur')
            if ops[-2 if ops[-1] == 'cur' else -1].startswith('gpe'):
                ops.append(f'relist {v}')
            ops.append(f'unguard {v}')
        progs.append(ops)
    coord = []
    for _ in range(rng.randrange(4, 8)):
        coord.append(f'fwd {rng.choice([100, 180, 255, 256, 257, 300, 400])}')
        if rng.random() < 0.3:
            coord.append(rng.choice(['min', 'cur']))
    progs.append(coord)
    policy = 4 if sequential else rng.choice([1, 2])
    head = (f'SCEN {sid} comp=thread nvars={2 * nworkers} policy={policy} seed={rng.randrange(1, 1 << 30)} '
            f'max_steps=120000' + (' seq=1' if sequential else ''))
    return '\n'.join([head] + ['T ' + ';'.join(p) for p in progs] + ['GO'])


def make_scenarios(seed, count, prefix, cap, kinds=('epoch', 'id'), long_share=0.1, seq_share=0.0, deep_share=0.0):
    rng = random.Random(f'thread-{seed}-{cap}')
    out = []
    for i in range(count):
        g = ThreadGen(rng, cap)
        kind = rng.choice(kinds)
        seq = kind == 'epoch' and rng.random() < seq_share
        if kind == 'epoch' and cap >= 2 and rng.random() < deep_share:
            if not seq and rng.random() < 0.5:
                out.append(stall_scenario(rng, f'{prefix}{i}', cap))
            else:
                out.append(deep_scenario(rng, f'{prefix}{i}', cap, seq))
            continue
        out.append(g.scenario(f'{prefix}{i}', kind=kind, long_run=(kind == 'epoch' and rng.random() < long_share),
                              sequential=seq))
    # a share of the epoch scenarios runs with a second, unrelated EpochManager in the process: every thread takes a
    # guard of it as soon as it knows its ID and keeps it while it works on the first manager (state shared between
    # manager instances - thread_local, static - would show as a difference; the harness keeps those calls out of
    # the trace, so the expected trace is exactly the one without the second manager)
    out = [with_decoy(s) if ' comp=thread ' in s and rng.random() < 0.15 else s for s in out]
    # a client that holds a promoted copy of its own heartbeat while it asks for its ID again
    out = [with_promote(s) if ' comp=thread ' in s and 'hbget' in s and rng.random() < 0.15 else s for s in out]
    return out


def with_promote(text):
    return '\n'.join(l + ' promote=1' if l.startswith('SCEN ') else l for l in text.split('\n'))


def with_decoy(text):
    return '\n'.join(l + ' decoy=1' if l.startswith('SCEN ') else l for l in text.split('\n'))
