"""Scenario generator for IDManager / EpochManager: histories of thread start / exit (more threads than
IDs, all probe starts), guard creation / destruction, GetProtectedEpochs, and one coordinator
calling ForwardGlobalEpoch (including runs across the 256-epoch list-node boundaries)."""
import random


class ThreadGen:
    def __init__(self, rng, cap):
        self.rng = rng
        self.cap = cap

    def worker(self, t, nvars_per, kind):
        """kind: 'id' (IDManager only) or 'epoch'"""
        r = self.rng
        ops = [f'probe {r.randrange(self.cap)}']
        base = t * nvars_per
        if kind == 'id':
            ops.append('gid')
            if r.random() < 0.7:
                ops.append('hbget')
            for _ in range(r.randrange(0, 3)):
                ops.append(r.choice(['gid', 'hbget', 'gid']))
            if r.random() < 0.5:
                ops.append(f'hold {r.randrange(10, 90)}')   # keep the ID while others start and look for one
            return ops
        if r.random() < 0.5:
            ops += ['gid', 'hbget']
        held = []
        for _ in range(r.randrange(1, 5)):
            c = r.random()
            if not held and c >= 0.6 and c < 0.85:
                c = r.random() * 0.6
            free = [v for v in range(base, base + nvars_per) if v not in held]
            if held and not getattr(self, 'nested_ok', False):
                free = []   # one guard per thread at a time (nested guards only in a few marked scenarios)
            if c < 0.3 and free:
                v = r.choice(free)
                ops.append(f'guard {v}')
                held.append(v)
                if r.random() < 0.5:
                    ops.append(f'gepoch {v}')
            elif c < 0.6 and free:
                v = r.choice(free)
                ops.append(f'gpe {v}')
                held.append(v)
                if r.random() < 0.7:
                    ops.append(f'relist {v}')
            elif c < 0.85 and held:
                v = held.pop(r.randrange(len(held)))
                if r.random() < 0.5:
                    ops.append(f'relist {v}')
                ops.append(f'unguard {v}')
            else:
                ops.append(r.choice(['cur', 'min', 'min;cur']))
        for v in held:
            if r.random() < 0.6:
                ops.append(f'relist {v}')
            ops.append(f'unguard {v}')
        return ops

    def coordinator(self, long_run):
        r = self.rng
        ops = []
        if long_run:
            # walk up to just below a list-node boundary, then take small steps across it
            ops.append(f'fwd {r.choice([250, 253, 254, 255, 506, 510])}')
        for _ in range(r.randrange(2, 7)):
            ops.append(r.choice(['fwd', 'fwd', 'fwd 2', 'fwd 3', 'cur', 'min']))
        ops += ['fwd', 'cur', 'min']
        return ops

    def scenario(self, sid, kind='epoch', long_run=False, sequential=False):
        r = self.rng
        nvars_per = 2
        if kind == 'id':
            nworkers = r.choice([self.cap, self.cap + 1, self.cap + 2, 2 * self.cap])
        else:
            # C04/C20 quantify over "up to the ID capacity" workers (one slot may be the coordinator's)
            nworkers = r.choice([1, 2, self.cap, self.cap + 1])
            if sequential:
                nworkers = r.randrange(1, max(2, self.cap))  # C20: up to capacity-1 threads, nobody waits for an ID
        self.nested_ok = (not sequential) and r.random() < 0.06
        progs = [self.worker(t, nvars_per, kind) for t in range(nworkers)]
        ncoord = None
        if kind != 'id':
            ncoord = len(progs)
            progs.append(self.coordinator(long_run))
        policy = 4 if sequential else r.choice([0, 1, 1, 2, 2, 3])
        seed = r.randrange(1, 1 << 30)
        steps = 40000 if long_run else 6000
        head = (f'SCEN {sid} comp=thread nvars={nvars_per * max(1, nworkers)} policy={policy} seed={seed} '
                f'max_steps={steps}' + (' seq=1' if sequential else ''))
        lines = [head] + ['T ' + ';'.join(p) for p in progs]
        if sequential:
            # run whole instructions one after another: thread order chosen up front
            pass
        lines.append('GO')
        return '\n'.join(lines)


def make_scenarios(seed, count, prefix, cap, kinds=('epoch', 'id'), long_share=0.1, seq_share=0.0):
    rng = random.Random(f'thread-{seed}-{cap}')
    out = []
    for i in range(count):
        g = ThreadGen(rng, cap)
        kind = rng.choice(kinds)
        seq = kind == 'epoch' and rng.random() < seq_share
        out.append(g.scenario(f'{prefix}{i}', kind=kind, long_run=(kind == 'epoch' and rng.random() < long_share),
                              sequential=seq))
    return out
