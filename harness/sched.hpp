// Baton scheduler for virtual threads (real OS threads, one runnable at a time) and the
// trace writer.  A *quantum* of a virtual thread = one announced operation plus the local
// code up to its next announced operation; one output line per quantum:
//   Q <tid> <op> <loc> <mo> <mo_fail> <rd> <wr> <ok> | <local tokens>
#ifndef VERIF_SCHED_HPP_
#define VERIF_SCHED_HPP_

#include <cstdint>
#include <functional>
#include <string>
#include <vector>

namespace vsched
{
// --- used by the interpreter -----------------------------------------------------------
/// append a local-event token to the current quantum line of the calling virtual thread
void tok(const std::string &t);
/// a pseudo operation that is a scheduling point (start, payload cell access, heartbeat steps)
void pseudo_op(const char *name, const std::string &loc, uint64_t rd, uint64_t wr);
/// like pseudo_op, but `act` runs after the thread is scheduled and computes (rd, wr)
void pseudo_op_fn(const char *name, const std::string &loc,
                  const std::function<void(uint64_t &, uint64_t &)> &act);
/// give an address a canonical name (locks, payload cells, statics)
void name_object(const void *addr, const std::string &name);
void name_range(const void *addr, size_t len, const std::string &name);  // every location inside [addr, addr+len)
/// reset allocation ordinals and names (per scenario)
void reset_names();
int current_tid();
/// leave / re-enter the scheduler's view: while quiet, atomic operations of the calling thread are neither scheduling
/// points nor logged (used for objects that are not part of the scenario, e.g. a second manager instance)
int quiet_enter();
void quiet_leave(int saved);
/// queue-node naming: objects registered after the first `base` ones are N1, N2, ...; when ptr_mask != 0
/// the pointer field of every logged value is replaced by the node number
void set_node_naming(int base, uint64_t ptr_mask);
/// number of registered (live) node objects
int live_nodes();

struct Options {
  std::vector<int> schedule;       // explicit prefix of thread choices
  std::vector<int> spurious;       // step indices (global quantum numbers) at which a weak CAS fails spuriously
  uint64_t seed = 1;               // PRNG seed for the fallback policy
  int policy = 0;                  // 0 = round robin, 1 = uniform random, 2 = PCT-like priorities
  int max_steps = 4000;            // step budget; exceeding it = stuck
  int pct_depth = 3;
  int late_thread = -1;            // this thread becomes runnable only after all others finished
};

/// Run the bodies as virtual threads under the scheduler. Returns "ok", or "stuck" when the
/// budget is exhausted (in that case the process must exit: threads are still blocked).
std::string run(const std::vector<std::function<void()>> &bodies, const Options &opt);

/// number of quanta executed by the last run
int steps_done();
}  // namespace vsched

#endif
