// Force-included (-include) in front of every /repo translation unit compiled for the harness.
// It pre-includes the standard headers the repository uses, then renames the std typedef
// names the repository spells (std::atomic_uint64_t, std::atomic_size_t, std::atomic_bool,
// std::atomic_thread_fence, and for the heartbeat std::shared_ptr / weak_ptr / make_shared,
// std::this_thread::get_id) to instrumented types with the same interface.  No source file
// of /repo is edited.  Every instrumented operation is a scheduling point (see sched.hpp).
#ifndef VERIF_SHIM_HPP_
#define VERIF_SHIM_HPP_

#include <algorithm>
#include <array>
#include <atomic>
#include <bit>
#include <bitset>
#include <chrono>
#include <cmath>
#include <condition_variable>
#include <cstddef>
#include <cstdint>
#include <cstdio>
#include <cstdlib>
#include <cstring>
#include <functional>
#include <limits>
#include <map>
#include <memory>
#include <mutex>
#include <random>
#include <stdexcept>
#include <string>
#include <thread>
#include <type_traits>
#include <utility>
#include <vector>

namespace vshim
{
enum class OpK { load, store, xchg, cas, fadd, fsub, fxor, fand, forr, fence };

// implemented in sched.cpp --------------------------------------------------------------
// Block until the scheduler picks the calling virtual thread (no-op outside virtual threads).
void yield_point();
// Log the operation just executed by the calling virtual thread (starts its quantum line).
void log_op(OpK op, const void *addr, std::memory_order mo, std::memory_order mo_fail, uint64_t rd,
            uint64_t wr, bool ok);
void register_object(const void *addr);
void unregister_object(const void *addr);
// spurious failure requested for the next weak CAS of the calling thread?
bool take_spurious();
bool tracing();

template <class T>
inline uint64_t
to_u64(T v)
{
  if constexpr (std::is_same_v<T, bool>) {
    return v ? 1 : 0;
  } else {
    return static_cast<uint64_t>(v);
  }
}

template <class T>
struct atomic {
  std::atomic<T> v_;

  constexpr atomic() noexcept : v_{}
  {
    if (!std::is_constant_evaluated()) register_object(this);
  }
  constexpr atomic(T x) noexcept : v_{x}  // NOLINT
  {
    if (!std::is_constant_evaluated()) register_object(this);
  }
  atomic(const atomic &) = delete;
  atomic &operator=(const atomic &) = delete;
  constexpr ~atomic()
  {
    if (!std::is_constant_evaluated()) unregister_object(this);
  }

  static constexpr std::memory_order kSC = std::memory_order_seq_cst;

  T
  load(std::memory_order mo = kSC) const noexcept
  {
    yield_point();
    T r = v_.load(kSC);
    log_op(OpK::load, this, mo, std::memory_order_relaxed, to_u64(r), to_u64(r), true);
    return r;
  }
  operator T() const noexcept { return load(); }  // NOLINT

  void
  store(T x, std::memory_order mo = kSC) noexcept
  {
    yield_point();
    v_.store(x, kSC);
    log_op(OpK::store, this, mo, std::memory_order_relaxed, 0, to_u64(x), true);
  }
  T
  operator=(T x) noexcept  // NOLINT
  {
    store(x);
    return x;
  }

  T
  exchange(T x, std::memory_order mo = kSC) noexcept
  {
    yield_point();
    T r = v_.exchange(x, kSC);
    log_op(OpK::xchg, this, mo, std::memory_order_relaxed, to_u64(r), to_u64(x), true);
    return r;
  }

  // C++20 waiting: `wait(old)` returns once the value differs from `old`.  Under the baton scheduler it is a loop of
  // announced loads (every re-check is a scheduling point); notify_* have no effect of their own.
  void
  wait(T old, std::memory_order mo = kSC) const noexcept
  {
    while (load(mo) == old) {
    }
  }
  void notify_one() noexcept {}
  void notify_all() noexcept {}

  static constexpr std::memory_order
  fail_order(std::memory_order s)
  {
    return s == std::memory_order_acq_rel   ? std::memory_order_acquire
           : s == std::memory_order_release ? std::memory_order_relaxed
                                            : s;
  }

  bool
  cas_impl(T &expected, T desired, std::memory_order s, std::memory_order f, bool weak) noexcept
  {
    yield_point();
    bool ok;
    T old = expected;
    if (weak && take_spurious()) {
      T cur = v_.load(kSC);
      expected = cur;
      ok = false;
      log_op(OpK::cas, this, s, f, to_u64(cur), to_u64(cur), false);
      return ok;
    }
    ok = v_.compare_exchange_strong(expected, desired, kSC, kSC);
    if (ok) {
      log_op(OpK::cas, this, s, f, to_u64(old), to_u64(desired), true);
    } else {
      log_op(OpK::cas, this, s, f, to_u64(expected), to_u64(expected), false);
    }
    return ok;
  }
  bool
  compare_exchange_weak(T &e, T d, std::memory_order s, std::memory_order f) noexcept
  {
    return cas_impl(e, d, s, f, true);
  }
  bool
  compare_exchange_weak(T &e, T d, std::memory_order s = kSC) noexcept
  {
    return cas_impl(e, d, s, fail_order(s), true);
  }
  bool
  compare_exchange_strong(T &e, T d, std::memory_order s, std::memory_order f) noexcept
  {
    return cas_impl(e, d, s, f, false);
  }
  bool
  compare_exchange_strong(T &e, T d, std::memory_order s = kSC) noexcept
  {
    return cas_impl(e, d, s, fail_order(s), false);
  }

#define VSHIM_RMW(NAME, KIND, EXPR)                                                          \
  template <class U = T>                                                                     \
  std::enable_if_t<!std::is_same_v<U, bool>, T> NAME(T x, std::memory_order mo = kSC) noexcept \
  {                                                                                          \
    yield_point();                                                                           \
    T r = v_.NAME(x, kSC);                                                                   \
    log_op(KIND, this, mo, std::memory_order_relaxed, to_u64(r), to_u64(static_cast<T>(EXPR)), true); \
    return r;                                                                                \
  }
  VSHIM_RMW(fetch_add, OpK::fadd, r + x)
  VSHIM_RMW(fetch_sub, OpK::fsub, r - x)
  VSHIM_RMW(fetch_xor, OpK::fxor, r ^ x)
  VSHIM_RMW(fetch_and, OpK::fand, r &x)
  VSHIM_RMW(fetch_or, OpK::forr, r | x)
#undef VSHIM_RMW

  template <class U = T>
  std::enable_if_t<!std::is_same_v<U, bool>, T>
  operator++() noexcept
  {
    return fetch_add(1) + 1;
  }
  template <class U = T>
  std::enable_if_t<!std::is_same_v<U, bool>, T>
  operator++(int) noexcept
  {
    return fetch_add(1);
  }
  template <class U = T>
  std::enable_if_t<!std::is_same_v<U, bool>, T>
  operator--() noexcept
  {
    return fetch_sub(1) - 1;
  }
  template <class U = T>
  std::enable_if_t<!std::is_same_v<U, bool>, T>
  operator--(int) noexcept
  {
    return fetch_sub(1);
  }
  template <class U = T>
  std::enable_if_t<!std::is_same_v<U, bool>, T>
  operator+=(T x) noexcept
  {
    return fetch_add(x) + x;
  }
  template <class U = T>
  std::enable_if_t<!std::is_same_v<U, bool>, T>
  operator-=(T x) noexcept
  {
    return fetch_sub(x) - x;
  }
  template <class U = T>
  std::enable_if_t<!std::is_same_v<U, bool>, T>
  operator|=(T x) noexcept
  {
    return fetch_or(x) | x;
  }
  template <class U = T>
  std::enable_if_t<!std::is_same_v<U, bool>, T>
  operator&=(T x) noexcept
  {
    return fetch_and(x) & x;
  }
  template <class U = T>
  std::enable_if_t<!std::is_same_v<U, bool>, T>
  operator^=(T x) noexcept
  {
    return fetch_xor(x) ^ x;
  }
  bool
  is_lock_free() const noexcept
  {
    return true;
  }
};

// ---- heartbeat pointers (IDManager / EpochManager) -------------------------------------------
// implemented in sched.cpp
void hb_pseudo(const char *name, const void *addr, uint64_t rd, uint64_t wr);
void hb_yield();

template <class T>
struct hb_weak_ptr;
template <class T>
using real_weak_ptr = std::weak_ptr<T>;

template <class T>
struct hb_shared_ptr {
  std::shared_ptr<T> p_;

  constexpr hb_shared_ptr() noexcept = default;
  constexpr hb_shared_ptr(std::nullptr_t) noexcept {}  // NOLINT
  explicit hb_shared_ptr(std::shared_ptr<T> p) : p_{std::move(p)} {}
  hb_shared_ptr &
  operator=(std::nullptr_t) noexcept
  {
    drop();
    return *this;
  }
  void
  swap(hb_shared_ptr &o) noexcept
  {
    p_.swap(o.p_);
  }
  friend bool operator==(const hb_shared_ptr &a, std::nullptr_t) noexcept { return !a.p_; }
  friend bool operator!=(const hb_shared_ptr &a, std::nullptr_t) noexcept { return static_cast<bool>(a.p_); }
  hb_shared_ptr(const hb_shared_ptr &) = default;
  hb_shared_ptr(hb_shared_ptr &&o) noexcept : p_{std::move(o.p_)} {}
  hb_shared_ptr &
  operator=(const hb_shared_ptr &o)
  {
    if (this != &o) {
      drop();
      p_ = o.p_;
    }
    return *this;
  }
  hb_shared_ptr &
  operator=(hb_shared_ptr &&o) noexcept
  {
    if (this != &o) {
      drop();
      p_ = std::move(o.p_);
    }
    return *this;
  }
  ~hb_shared_ptr() { drop(); }

  // the death of the last owner is a scheduling point: the heartbeat expires here
  void
  drop() noexcept
  {
    if (p_ && p_.use_count() == 1) {
      hb_yield();
      const uint64_t v = static_cast<uint64_t>(*p_);
      p_.reset();
      hb_pseudo("hb.expire", nullptr, v, v);
    } else {
      p_.reset();
    }
  }
  void reset() noexcept { drop(); }
  long use_count() const noexcept { return p_.use_count(); }
  T &operator*() const noexcept { return *p_; }
  T *operator->() const noexcept { return p_.get(); }
  T *get() const noexcept { return p_.get(); }
  explicit operator bool() const noexcept { return static_cast<bool>(p_); }
};

template <class T>
struct hb_weak_ptr {
  std::weak_ptr<T> w_;

  constexpr hb_weak_ptr() noexcept = default;
  hb_weak_ptr(const hb_shared_ptr<T> &s) noexcept : w_{s.p_} {}  // NOLINT
  hb_weak_ptr(const hb_weak_ptr &) = default;
  hb_weak_ptr(hb_weak_ptr &&) noexcept = default;
  ~hb_weak_ptr() = default;

  // publishing a heartbeat into a slot and looking at a slot are scheduling points
  hb_weak_ptr &
  operator=(const hb_weak_ptr &o)
  {
    hb_yield();
    w_ = o.w_;
    hb_pseudo("hb.assign", this, 0, w_.expired() ? 0 : 1);
    return *this;
  }
  hb_weak_ptr &
  operator=(hb_weak_ptr &&o) noexcept
  {
    hb_yield();
    w_ = std::move(o.w_);
    hb_pseudo("hb.assign", this, 0, w_.expired() ? 0 : 1);
    return *this;
  }
  bool
  expired() const noexcept
  {
    hb_yield();
    const bool e = w_.expired();
    hb_pseudo("hb.expired", this, e ? 1 : 0, e ? 1 : 0);
    return e;
  }
  // every other access to a slot's heartbeat is a scheduling point with its own event too (the library as modelled
  // uses none of them: an occurrence shows up as an event the model does not have)
  hb_shared_ptr<T>
  lock() const noexcept
  {
    hb_yield();
    auto sp = w_.lock();
    hb_pseudo("hb.lock", this, sp ? 1 : 0, sp ? 1 : 0);
    return hb_shared_ptr<T>{std::move(sp)};
  }
  long
  use_count() const noexcept
  {
    hb_yield();
    const long n = w_.use_count();
    hb_pseudo("hb.usecount", this, static_cast<uint64_t>(n), static_cast<uint64_t>(n));
    return n;
  }
  void
  reset() noexcept
  {
    hb_yield();
    w_.reset();
    hb_pseudo("hb.reset", this, 0, 0);
  }
};

template <class T, class... Args>
hb_shared_ptr<T>
hb_make_shared(Args &&...args)
{
  return hb_shared_ptr<T>{std::make_shared<T>(std::forward<Args>(args)...)};
}

template <class T, class A, class... Args>
hb_shared_ptr<T>
hb_allocate_shared(const A &a, Args &&...args)
{
  return hb_shared_ptr<T>{std::allocate_shared<T>(a, std::forward<Args>(args)...)};
}

// probe start chosen by the harness for the calling thread (IDManager::GetHeartBeater)
std::thread::id chosen_thread_id();
void prepare_thread_ids(int n);
void set_probe_start(int r);

inline void
fence(std::memory_order mo) noexcept
{
  yield_point();
  std::atomic_thread_fence(std::memory_order_seq_cst);
  log_op(OpK::fence, nullptr, mo, std::memory_order_relaxed, 0, 0, true);
}

}  // namespace vshim

namespace std
{
using vshim_atomic_uint64_t = ::vshim::atomic<uint64_t>;
using vshim_atomic_size_t = ::vshim::atomic<size_t>;
using vshim_atomic_bool = ::vshim::atomic<bool>;
inline void
vshim_atomic_thread_fence(std::memory_order mo) noexcept
{
  ::vshim::fence(mo);
}
template <class T>
using vshim_shared_ptr = ::vshim::hb_shared_ptr<T>;
template <class T>
using vshim_weak_ptr = ::vshim::hb_weak_ptr<T>;
template <class T, class... Args>
inline ::vshim::hb_shared_ptr<T>
vshim_make_shared(Args &&...args)
{
  return ::vshim::hb_make_shared<T>(std::forward<Args>(args)...);
}
template <class T, class A, class... Args>
inline ::vshim::hb_shared_ptr<T>
vshim_allocate_shared(const A &a, Args &&...args)
{
  return ::vshim::hb_allocate_shared<T>(a, std::forward<Args>(args)...);
}
namespace this_thread
{
inline std::thread::id
vshim_get_id() noexcept
{
  return ::vshim::chosen_thread_id();
}
}  // namespace this_thread
}  // namespace std

#ifndef VERIF_SHIM_NO_RENAME
#define atomic_uint64_t vshim_atomic_uint64_t
#define atomic_size_t vshim_atomic_size_t
#define atomic_bool vshim_atomic_bool
#define atomic_thread_fence vshim_atomic_thread_fence
#ifdef VERIF_SHIM_HEARTBEAT
#define shared_ptr vshim_shared_ptr
#define weak_ptr vshim_weak_ptr
#define make_shared vshim_make_shared
#define allocate_shared vshim_allocate_shared
#define get_id vshim_get_id
#endif
#define private public
#define protected public
#endif

#endif  // VERIF_SHIM_HPP_
