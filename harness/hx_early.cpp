// Static-initialisation probe for IDManager (C05), built WITHOUT the shim from the repository's own sources.
// A global object with the highest initialisation priority asks for its thread ID, as client code running in a global
// constructor would; afterwards (all static initialisers of the program have run) kMaxThreadNum further threads ask for
// IDs and keep them.  The main thread is still running user code, so none of them may obtain its ID.
#include <atomic>
#include <chrono>
#include <cstdio>
#include <cstdlib>
#include <thread>
#include <vector>

#include "dbgroup/thread/id_manager.hpp"

namespace
{
struct Early {
  size_t id;
  Early() : id{::dbgroup::thread::IDManager::GetThreadID()} {}
};
__attribute__((init_priority(101))) Early early_claim;
}  // namespace

#include "thread/id_manager.cpp"  // NOLINT  (found through -I<repo>/src): its initialisers run after `early_claim`

int
main()
{
  constexpr size_t kN = ::dbgroup::thread::kMaxThreadNum;
  const size_t mine = ::dbgroup::thread::IDManager::GetThreadID();
  std::vector<std::atomic<long>> got(kN);
  for (auto &g : got) g.store(-1);
  std::atomic<bool> stop{false};
  std::vector<std::thread> th;
  for (size_t i = 0; i < kN; ++i) {
    th.emplace_back([&, i] {
      got[i].store(static_cast<long>(::dbgroup::thread::IDManager::GetThreadID()));
      while (!stop.load()) std::this_thread::sleep_for(std::chrono::milliseconds(1));
    });
    th.back().detach();
  }
  // at most kN - 1 of them can obtain an ID while the main thread holds one: wait until that many returned (or 3 s)
  for (int ms = 0; ms < 3000; ms += 5) {
    size_t n = 0;
    for (auto &g : got) n += g.load() >= 0 ? 1 : 0;
    if (n + 1 >= kN && ms >= 200) break;
    std::this_thread::sleep_for(std::chrono::milliseconds(5));
  }
  int dup = 0;
  size_t n = 0;
  for (auto &g : got) {
    const long v = g.load();
    if (v >= 0) ++n;
    if (v >= 0 && static_cast<size_t>(v) == mine) dup = 1;
  }
  std::printf("EARLY stable=%d dup=%d holders=%zu id=%zu\n", mine == early_claim.id ? 1 : 0, dup, n, mine);
  std::fflush(stdout);
  std::_Exit(0);  // a thread may be spinning for an ID for ever
}
