// Thread-component harness: IDManager and EpochManager under the baton scheduler.
// Compiled with `-include shim.hpp -DVERIF_SHIM_HEARTBEAT`; includes id_manager.cpp itself so that the
// reservation array in its anonymous namespace can be named in the trace.
//
// Scenario (stdin):
//   SCEN <id> comp=thread nvars=<n> [policy= seed= max_steps= coord=<tid>]
//   T <op>;<op>;...        per virtual thread
//   S ... / GO
// Instructions:
//   probe r | gid | hbget | guard v | unguard v | gpe v | relist v | gepoch v | fwd [n] | cur | min
#ifdef VERIF_COVERAGE
extern "C" void __gcov_dump(void);  // coverage build only (check/coverage.py)
#endif
#include <cstdlib>
#include <cstring>
#include <sys/resource.h>
#include <sys/time.h>
#include <sys/wait.h>
#include <unistd.h>

#include <cinttypes>
#include <csignal>
#include <iostream>
#include <new>
#include <set>
#include <sstream>

#include "sched.hpp"

// the repository sources of the component, in this translation unit (anonymous namespace access)
#include "thread/id_manager.cpp"  // NOLINT  (found through -I<repo>/src)

#include "dbgroup/thread/epoch_manager.hpp"

namespace
{
using vsched::tok;
using ::dbgroup::thread::EpochGuard;
using ::dbgroup::thread::EpochManager;
using ::dbgroup::thread::IDManager;
constexpr size_t kN = ::dbgroup::thread::kMaxThreadNum;

// ---- ProtectedNode allocation accounting ------------------------------------------------------
std::set<void *> pnodes;
std::mutex pn_mu;
long pn_live = 0;
bool pn_on = false;
// list node (allocation address) that holds the vector handed to each guard variable (nullptr = none)
std::vector<void *> g_list_node;

void *
node_containing(const void *q)
{
  std::lock_guard<std::mutex> g(pn_mu);
  for (void *p : pnodes) {
    const auto *b = static_cast<const char *>(p);
    const auto *c = static_cast<const char *>(q);
    if (c >= b && c < b + sizeof(::dbgroup::thread::EpochManager::ProtectedNode)) return p;
  }
  return nullptr;
}
bool
node_live(void *p)
{
  std::lock_guard<std::mutex> g(pn_mu);
  return pnodes.count(p) != 0;
}
}  // namespace

void *
operator new(std::size_t sz, std::align_val_t al)
{
  void *p = nullptr;
  if (posix_memalign(&p, static_cast<size_t>(al) < sizeof(void *) ? sizeof(void *) : static_cast<size_t>(al), sz) != 0) {
    throw std::bad_alloc{};
  }
  if (pn_on && sz == sizeof(EpochManager::ProtectedNode)) {
    {
      std::lock_guard<std::mutex> g(pn_mu);
      pnodes.insert(p);
      ++pn_live;
    }
    tok("PA");
  }
  return p;
}
void
operator delete(void *p, std::align_val_t) noexcept
{
  if (p == nullptr) return;
  bool hit = false;
  {
    std::lock_guard<std::mutex> g(pn_mu);
    auto it = pnodes.find(p);
    if (it != pnodes.end()) {
      pnodes.erase(it);
      --pn_live;
      hit = true;
    }
  }
  if (hit) {
    tok("PF");
    // a vector handed out to a guard holder lives in this node
    for (size_t v = 0; v < g_list_node.size(); ++v) {
      if (g_list_node[v] == p) tok("LFREE" + std::to_string(v));
    }
  }
  free(p);
}
void
operator delete(void *p, std::size_t, std::align_val_t al) noexcept
{
  operator delete(p, al);
}

namespace
{
struct OpI {
  std::string name;
  long a = 0;
};

struct Scenario {
  std::string id;
  int nvars = 4;
  int promote = 0;  // a thread calls GetThreadID while it holds a promoted (locked) copy of its own heartbeat
  int decoy = 0;  // every thread also holds a guard of a second, unrelated EpochManager while it works on the first
  std::vector<std::vector<OpI>> progs;
  std::vector<std::string> raw_t;
  std::string raw_scen;
  vsched::Options opt;
};

std::vector<std::string>
words(const std::string &s)
{
  std::istringstream is(s);
  std::vector<std::string> w;
  std::string x;
  while (is >> x) w.push_back(x);
  return w;
}

std::vector<std::string>
split(const std::string &s, char d)
{
  std::vector<std::string> out;
  std::string cur;
  for (char c : s) {
    if (c == d) {
      out.push_back(cur);
      cur.clear();
    } else {
      cur += c;
    }
  }
  out.push_back(cur);
  return out;
}

std::string
list_str(const std::vector<size_t> &v)
{
  std::string s = "[";
  for (size_t i = 0; i < v.size(); ++i) {
    if (i) s += ",";
    s += std::to_string(v[i]);
  }
  return s + "]";
}

struct World {
  EpochManager *mgr = nullptr;
  // a second manager instance that is not part of the scenario: its guards must not influence the first manager
  EpochManager *decoy = nullptr;
  std::vector<EpochGuard> decoy_guards;
  std::vector<char> decoy_taken;
  bool use_decoy = false;
  bool use_promote = false;
  std::vector<EpochGuard> guards;
  std::vector<const std::vector<size_t> *> lists;
  // ghosts
  std::vector<long> owner;                                  // id -> tid of the thread currently running with it
  std::vector<std::vector<vshim::real_weak_ptr<size_t>>> issued;   // id -> raw heartbeats handed out so far
  long turn = 0;                                            // scenario turn counter (await / bump)
  std::vector<long> my_id;                                  // tid -> id obtained
  std::vector<vshim::real_weak_ptr<size_t>> my_hb;                 // tid -> its own heartbeat (raw)

  explicit World(const Scenario &sc)
  {
    vsched::reset_names();
    vsched::set_node_naming(1 << 30, 0);
    vshim::prepare_thread_ids(static_cast<int>(kN));
    use_decoy = sc.decoy != 0;
    use_promote = sc.promote != 0;
    if (use_decoy) {
      const int q = vsched::quiet_enter();
      decoy = new EpochManager{};  // before allocation tracking starts: its list nodes are not counted
      vsched::quiet_leave(q);
      decoy_guards = std::vector<EpochGuard>(sc.progs.size());
      decoy_taken.assign(sc.progs.size(), 0);
    }
    pn_on = true;
    mgr = new EpochManager{};
    vsched::name_object(&(mgr->global_epoch_), "G");
    vsched::name_object(&(mgr->min_epoch_), "M");
    for (size_t i = 0; i < kN; ++i) {
      vsched::name_object(&(::dbgroup::thread::_id_vec[i]), "I" + std::to_string(i));
      // the pinned-epoch word is the one atomic member of the Epoch object: named through the object, not the private member
      vsched::name_range(&(mgr->tls_fields_[i].epoch), sizeof(mgr->tls_fields_[i].epoch), "E" + std::to_string(i));
      vsched::name_object(&(mgr->tls_fields_[i].heartbeat), "H" + std::to_string(i));
    }
    guards = std::vector<EpochGuard>(sc.nvars);
    lists.assign(sc.nvars, nullptr);
    g_list_node.assign(sc.nvars, nullptr);
    owner.assign(kN, -1);
    issued.resize(kN);
    my_id.assign(sc.progs.size(), -1);
    my_hb.resize(sc.progs.size());
  }

  void
  forward_once()
  {
    tok("FS");
    mgr->ForwardGlobalEpoch();
    const auto cur = mgr->global_epoch_.v_.load();
    const auto mn = mgr->min_epoch_.v_.load();
    const auto &l = EpochManager::ProtectedNode::GetProtectedEpochs(cur, mgr->protected_lists_);
    tok("FE" + std::to_string(cur) + ":" + std::to_string(mn) + ":" + list_str(l) + ":" + std::to_string(pn_live));
  }

  void
  exec(int tid, const OpI &o, int k)
  {
    tok("B" + std::to_string(k));
    const std::string rk = "R" + std::to_string(k) + "=";
    if (o.name == "probe") {
      vshim::set_probe_start(static_cast<int>(o.a));
      tok(rk + "0");
    } else if (o.name == "gid") {
      // promote=1: a client that looked at its own heartbeat (weak_ptr::lock) still holds the promoted copy while it
      // asks for its ID again; the copy is a plain std::shared_ptr (no events) and is dropped when this operation ends,
      // never as the last owner in a correct library (the thread-local HeartBeater owns the token until thread exit)
      auto promoted = use_promote ? my_hb[tid].lock() : decltype(my_hb[tid].lock()){};
      const auto id = IDManager::GetThreadID();
      std::string extra;
      if (id >= kN) {
        extra += " IDRANGE";
      } else {
        if (my_id[tid] >= 0 && static_cast<size_t>(my_id[tid]) != id) extra += " IDCHG";
        if (owner[id] >= 0 && owner[id] != tid) extra += " IDDUP" + std::to_string(id);
        if (my_id[tid] < 0) {
          // first time this thread learns its ID: every heartbeat handed out for it before must be expired
          bool live_old = false;
          for (auto &w : issued[id]) live_old = live_old || !w.expired();
          if (live_old) extra += " HBLIVE" + std::to_string(id);
        }
        owner[id] = tid;
        my_id[tid] = static_cast<long>(id);
      }
      tok(rk + std::to_string(id) + extra);
    } else if (o.name == "hbget") {
      auto w = IDManager::GetHeartBeat();
      my_hb[tid] = w.w_;
      if (my_id[tid] >= 0) issued[my_id[tid]].push_back(w.w_);
      tok(rk + (w.w_.expired() ? "1" : "0"));
    } else if (o.name == "guard") {
      auto g = mgr->CreateEpochGuard();
      const auto e = g.GetProtectedEpoch();
      guards.at(o.a) = std::move(g);
      tok(rk + std::to_string(e));
    } else if (o.name == "unguard") {
      guards.at(o.a) = EpochGuard{};
      lists.at(o.a) = nullptr;
      g_list_node.at(o.a) = nullptr;
      tok(rk + "0");
    } else if (o.name == "gpe") {
      auto &&[g, l] = mgr->GetProtectedEpochs();
      const auto e = g.GetProtectedEpoch();
      guards.at(o.a) = std::move(g);
      lists.at(o.a) = &l;
      g_list_node.at(o.a) = node_containing(&l);
      tok(rk + std::to_string(e) + ":" + list_str(l));
    } else if (o.name == "relist") {
      const auto *l = lists.at(o.a);
      if (l != nullptr && (g_list_node.at(o.a) == nullptr || !node_live(g_list_node.at(o.a)))) {
        tok(rk + "freed");  // the node holding the vector is gone: do not touch it
      } else {
        tok(rk + (l ? list_str(*l) : std::string("none")));
      }
    } else if (o.name == "gepoch") {
      tok(rk + std::to_string(guards.at(o.a).GetProtectedEpoch()));
    } else if (o.name == "fwd") {
      const long n = o.a > 0 ? o.a : 1;
      for (long i = 0; i < n; ++i) forward_once();
      tok(rk + "0");
    } else if (o.name == "await") {
      // wait (one scheduling quantum per look) until the scenario's turn counter has reached the given value
      while (true) {
        bool ready = false;
        vsched::pseudo_op_fn("await", "-", [&](uint64_t &rd, uint64_t &wr) {
          rd = wr = static_cast<uint64_t>(turn);
          ready = turn >= o.a;
        });
        if (ready) break;
      }
      tok(rk + "0");
    } else if (o.name == "bump") {
      ++turn;
      tok(rk + "0");
    } else if (o.name == "hold") {
      // stay alive (running user code, holding the ID) for a number of scheduling quanta
      for (long i = 0; i < o.a; ++i) vsched::pseudo_op("hold", "-", 0, 0);
      tok(rk + "0");
    } else if (o.name == "cur") {
      tok(rk + std::to_string(mgr->GetCurrentEpoch()));
    } else if (o.name == "min") {
      tok(rk + std::to_string(mgr->GetMinEpoch()));
    } else {
      tok("BADOP");
    }
    if (use_decoy && (k % 2) == 1) {
      // the other manager moves on as well, between two instructions of this thread (i.e. possibly in the middle of the
      // first manager's ForwardGlobalEpoch, which another thread is executing): scratch state shared between manager
      // instances would be clobbered
      const int q = vsched::quiet_enter();
      const bool pn_saved = pn_on;
      pn_on = false;
      decoy->ForwardGlobalEpoch();
      pn_on = pn_saved;
      vsched::quiet_leave(q);
    }
    if (use_decoy && !decoy_taken[tid] &&
        (o.name == "gid" || o.name == "hbget" || o.name == "guard" || o.name == "gpe")) {
      // the thread owns its ID now: it takes a guard of the other manager and keeps it until it finishes
      const int q = vsched::quiet_enter();
      decoy_guards[tid] = decoy->CreateEpochGuard();
      vsched::quiet_leave(q);
      decoy_taken[tid] = 1;
    }
  }

  void
  drop_decoy(int tid)
  {
    if (use_decoy && decoy_taken[tid]) {
      const int q = vsched::quiet_enter();
      decoy_guards[tid] = EpochGuard{};
      vsched::quiet_leave(q);
      decoy_taken[tid] = 0;
    }
  }
};

int
run_child(const Scenario &sc)
{
  std::setvbuf(stdout, nullptr, _IOLBF, 0);
  World w(sc);
  std::vector<std::function<void()>> bodies;
  for (size_t t = 0; t < sc.progs.size(); ++t) {
    bodies.emplace_back([&w, &sc, t] {
      const auto &prog = sc.progs[t];
      for (size_t k = 0; k < prog.size(); ++k) w.exec(static_cast<int>(t), prog[k], static_cast<int>(k));
      w.drop_decoy(static_cast<int>(t));
      // the thread stops running user code: its ID may be given to somebody else from now on
      for (auto &o : w.owner)
        if (o == static_cast<long>(t)) o = -1;
      tok("X");
    });
  }
  auto status = vsched::run(bodies, sc.opt);
  // all threads have exited
  size_t unexpired = 0;
  for (auto &h : w.my_hb)
    if (!h.expired()) ++unexpired;
  size_t reserved = 0;
  for (size_t i = 0; i < kN; ++i)
    {
      // the reservation flag is the first byte of the table element, whatever the element type is (a bare atomic_bool or a
      // padded / wrapped one): read it without naming members, so that a re-packaging of the table is not a harness error
      unsigned char b = 0;
      std::memcpy(&b, reinterpret_cast<const void *>(&(::dbgroup::thread::_id_vec[i])), 1);
      if (b != 0) ++reserved;
    }
  std::printf("HBEND unexpired=%zu reserved=%zu\n", unexpired, reserved);
  w.guards.clear();
  delete w.mgr;
  std::printf("PNODES live=%ld\n", pn_live);
  pn_on = false;
  w.decoy_guards.clear();
  delete w.decoy;
  std::printf("END %s\n", status.c_str());
  std::fflush(stdout);
  return 0;
}

}  // namespace

int
main()
{
  std::setvbuf(stdout, nullptr, _IOFBF, 1 << 16);
  std::string line;
  Scenario sc;
  bool have = false;
  while (std::getline(std::cin, line)) {
    if (line.rfind("SCEN ", 0) == 0) {
      sc = Scenario{};
      have = true;
      auto w = words(line);
      sc.id = w.at(1);
      std::string kept = "SCEN " + sc.id;
      for (size_t i = 2; i < w.size(); ++i) {
        auto kv = split(w[i], '=');
        if (kv.size() != 2) continue;
        if (kv[0] == "nvars") sc.nvars = std::stoi(kv[1]);
        if (kv[0] == "decoy") sc.decoy = std::stoi(kv[1]);
        if (kv[0] == "promote") sc.promote = std::stoi(kv[1]);
        if (kv[0] == "policy") sc.opt.policy = std::stoi(kv[1]);
        if (kv[0] == "seed") sc.opt.seed = std::stoull(kv[1]);
        if (kv[0] == "max_steps") sc.opt.max_steps = std::stoi(kv[1]);
        if (kv[0] == "late") sc.opt.late_thread = std::stoi(kv[1]);
        if (kv[0] != "cap") kept += " " + w[i];
      }
      kept += " cap=" + std::to_string(kN);
      sc.raw_scen = kept;
    } else if (line.rfind("T", 0) == 0 && (line.size() == 1 || line[1] == ' ')) {
      std::vector<OpI> prog;
      for (auto &p : split(line.substr(1), ';')) {
        auto ws = words(p);
        if (ws.empty()) continue;
        OpI o;
        o.name = ws[0];
        if (ws.size() > 1) o.a = std::stol(ws[1]);
        prog.push_back(o);
      }
      sc.progs.push_back(prog);
      sc.raw_t.push_back(line);
    } else if (line.rfind("S ", 0) == 0) {
      for (auto &x : words(line.substr(2))) sc.opt.schedule.push_back(std::stoi(x));
    } else if (line == "GO" && have) {
      std::fputs(sc.raw_scen.c_str(), stdout);
      std::fputc('\n', stdout);
      for (auto &t : sc.raw_t) {
        std::fputs(t.c_str(), stdout);
        std::fputc('\n', stdout);
      }
      std::fflush(stdout);
      static int hangs = 0;
      if (hangs >= 2) {  // do not spend the whole budget on a tree that hangs everywhere
        std::printf("END skipped\n");
        std::fflush(stdout);
        have = false;
        continue;
      }
      pid_t pid = fork();
      if (pid == 0) {
        // wall-clock guard: code of the implementation that never reaches a scheduling point again
        // (e.g. a loop over plain memory that does not terminate) cannot be preempted by the baton scheduler
        // The guard is on CPU time: a non-terminating local loop burns a core, a thread that merely waits for its turn on
        // a loaded machine does not.  The wall-clock alarm is a back-stop that only makes the scenario be skipped.
        // It counts user-mode time only (ITIMER_VIRTUAL): the baton hand-over between many threads costs system time,
        // which says nothing about the code under test.  Total CPU time and wall-clock time are back-stops that only
        // make the scenario be skipped.
        {
          struct itimerval it {};
          it.it_value.tv_sec = 20;
          setitimer(ITIMER_VIRTUAL, &it, nullptr);
          struct rlimit rl;
          rl.rlim_cur = 300;
          rl.rlim_max = 305;
          setrlimit(RLIMIT_CPU, &rl);
        }
        alarm(std::getenv("VERIF_ALARM") ? static_cast<unsigned>(std::atoi(std::getenv("VERIF_ALARM"))) : 120U);
        run_child(sc);
#ifdef VERIF_COVERAGE
        __gcov_dump();
#endif
        _exit(0);
      }
      int st = 0;
      waitpid(pid, &st, 0);
      if (WIFSIGNALED(st) && WTERMSIG(st) == SIGVTALRM) {
        ++hangs;
        std::printf("END hang\n");
        std::fflush(stdout);
      } else if (WIFSIGNALED(st) && (WTERMSIG(st) == SIGALRM || WTERMSIG(st) == SIGXCPU || WTERMSIG(st) == SIGKILL)) {
        std::printf("END skipped\n");  // wall-clock back-stop on a loaded machine: not a verdict
        std::fflush(stdout);
      } else if (!(WIFEXITED(st) && WEXITSTATUS(st) == 0)) {
        std::printf("END crash status=%d\n", st);
        std::fflush(stdout);
      }
      have = false;
    }
  }
  return 0;
}
