// Lock harness: interprets scenario programs over the real PessimisticLock / OptimisticLock /
// MCSLock guard classes, under the baton scheduler.  Compiled with `-include shim.hpp` so that
// the class layouts match the instrumented translation units of /repo.
//
// Input (stdin): scenarios
//   SCEN <id> comp=<pess|opt|mcs> nlocks=<n> kinds=<K,K,...> [policy=<p>] [seed=<s>] [max_steps=<n>]
//   T <op>;<op>;...            one line per virtual thread
//   S <tid> <tid> ...          optional explicit schedule prefix
//   SP <step> ...              optional spurious-CAS-failure steps
//   GO
// Output (stdout): the SCEN/T lines echoed, one Q line per quantum, `END <status>`.
#ifdef VERIF_COVERAGE
extern "C" void __gcov_dump(void);  // coverage build only (check/coverage.py)
#endif
#include <cstdlib>
#include <sys/resource.h>
#include <sys/time.h>
#include <sys/wait.h>
#include <unistd.h>

#include <cinttypes>
#include <csignal>
#include <iostream>
#include <sstream>

#include "dbgroup/lock/mcs_lock.hpp"
#include "dbgroup/lock/optimistic_lock.hpp"
#include "dbgroup/lock/pessimistic_lock.hpp"
#include "sched.hpp"

namespace
{
using vsched::tok;

enum class Kind { S, SIX, X, Opt, Comp };

struct OpI {
  std::string name;
  std::string mode;
  long a = 0, b = 0;
  uint64_t val = 0;
};

struct Scenario {
  std::string id, comp = "pess";
  int nlocks = 1;
  std::vector<Kind> kinds;
  std::vector<std::vector<OpI>> progs;
  std::vector<std::string> raw_t;
  std::string raw_scen;
  vsched::Options opt;
};

std::vector<std::string>
split(const std::string &s, char d)
{
  std::vector<std::string> out;
  std::string cur;
  for (char c : s) {
    if (c == d) {
      out.push_back(cur);
      cur.clear();
    } else {
      cur += c;
    }
  }
  out.push_back(cur);
  return out;
}

std::vector<std::string>
words(const std::string &s)
{
  std::istringstream is(s);
  std::vector<std::string> w;
  std::string x;
  while (is >> x) w.push_back(x);
  return w;
}

OpI
parse_op(const std::string &s)
{
  auto w = words(s);
  OpI o;
  if (w.empty()) return o;
  o.name = w[0];
  size_t i = 1;
  if (o.name == "lock" || o.name == "try") {
    o.mode = w.at(1);
    i = 2;
  }
  if (i < w.size()) o.a = std::stol(w[i]);
  if (i + 1 < w.size()) {
    o.b = std::stol(w[i + 1], nullptr, 0);
    o.val = std::stoull(w[i + 1], nullptr, 0);
  }
  return o;
}

std::string
hex(uint64_t v)
{
  char b[32];
  std::snprintf(b, sizeof(b), "0x%" PRIx64, v);
  return b;
}

template <class Lock>
constexpr bool kIsOpt = std::is_same_v<Lock, ::dbgroup::lock::OptimisticLock>;

struct Pay {
  volatile uint64_t a = 0, b = 0;
};

// dummy guard types so that the Opt-only members exist for the other lock classes
struct NoGuard {
  explicit operator bool() const { return false; }
};

template <class Lock, bool IsOpt>
struct OptTypes {
  using OptG = NoGuard;
  using CompG = NoGuard;
};
template <class Lock>
struct OptTypes<Lock, true> {
  using OptG = typename Lock::OptGuard;
  using CompG = typename Lock::CompositeGuard;
};

template <class Lock>
struct World {
  using SG = typename Lock::SGuard;
  using SIXG = typename Lock::SIXGuard;
  using XG = typename Lock::XGuard;
  using OptG = typename OptTypes<Lock, kIsOpt<Lock>>::OptG;
  using CompG = typename OptTypes<Lock, kIsOpt<Lock>>::CompG;

  std::vector<std::unique_ptr<Lock>> locks;
  std::vector<Pay> pay;
  std::vector<Kind> kinds;
  std::vector<int> idx;
  std::vector<SG> s;
  std::vector<SIXG> six;
  std::vector<XG> x;
  std::vector<OptG> og;
  std::vector<CompG> cg;
  std::vector<long> ghost;  // var -> grant id or -1
  long next_gid = 0;
  // OptimisticLock: version ghosts of X guards (expected new version, lock index)
  std::vector<uint32_t> xnver;
  std::vector<uint32_t> xover;  // version the guard reported when it was granted
  std::vector<long> xlk;
  uint32_t pend_nver = 0;
  uint32_t pend_over = 0;
  long pend_lk = -1;

  explicit World(const Scenario &sc)
  {
    vsched::reset_names();
    for (int i = 0; i < sc.nlocks; ++i) {
      locks.emplace_back(new Lock{});
      // the lock word is the lock object's only data member: name the object's address (not `lock_`, so that renaming the
      // private member is not a harness error)
      static_assert(sizeof(Lock) == sizeof(uint64_t) || sizeof(Lock) == sizeof(std::atomic<uint64_t>) || sizeof(Lock) >= 8);
      vsched::name_object(static_cast<const void *>(locks.back().get()), "L" + std::to_string(i));
    }
    if constexpr (std::is_same_v<Lock, ::dbgroup::lock::MCSLock>) {
      vsched::set_node_naming(sc.nlocks, (1ULL << 47U) - 1ULL);
    } else {
      vsched::set_node_naming(1 << 30, 0);
    }
    pay.resize(sc.nlocks);
    kinds = sc.kinds;
    int ns = 0, nsix = 0, nx = 0, no = 0, nc = 0;
    for (auto k : kinds) {
      switch (k) {
        case Kind::S:
          idx.push_back(ns++);
          break;
        case Kind::SIX:
          idx.push_back(nsix++);
          break;
        case Kind::X:
          idx.push_back(nx++);
          break;
        case Kind::Opt:
          idx.push_back(no++);
          break;
        case Kind::Comp:
          idx.push_back(nc++);
          break;
      }
    }
    s = std::vector<SG>(ns);
    six = std::vector<SIXG>(nsix);
    x = std::vector<XG>(nx);
    og = std::vector<OptG>(no);
    cg = std::vector<CompG>(nc);
    ghost.assign(kinds.size(), -1);
    xnver.assign(kinds.size(), 0);
    xover.assign(kinds.size(), 0);
    xlk.assign(kinds.size(), -1);
  }

  // token announcing the end of the exclusive grant owned by X variable v (OptimisticLock only)
  void
  xend(long v)
  {
    if constexpr (kIsOpt<Lock>) {
      if (kinds.at(v) == Kind::X && ghost[v] >= 0) tok("XE" + std::to_string(xlk[v]) + ":" + hex(xnver[v]));
    }
  }

  template <class G>
  void
  xbegin(const G &g, long lk)
  {
    if constexpr (kIsOpt<Lock> && std::is_same_v<G, XG>) {
      if (g) {
        pend_nver = g.GetVersion() + 1U;
        pend_over = g.GetVersion();
        pend_lk = lk;
        tok("XB" + std::to_string(lk) + ":" + hex(g.GetVersion()));
      }
    }
  }

  template <class F>
  void
  visit(long v, F &&f)
  {
    switch (kinds.at(v)) {
      case Kind::S:
        f(s.at(idx[v]));
        break;
      case Kind::SIX:
        f(six.at(idx[v]));
        break;
      case Kind::X:
        f(x.at(idx[v]));
        break;
      case Kind::Opt:
        f(og.at(idx[v]));
        break;
      case Kind::Comp:
        f(cg.at(idx[v]));
        break;
    }
  }

  // `dst = std::move(tmp)` with the ghost bookkeeping; `gid` = grant owned by tmp (or -1)
  template <class G>
  void
  assign(long dst, G &&tmp, long gid, int k, const std::string &res)
  {
    visit(dst, [&](auto &d) {
      using D = std::decay_t<decltype(d)>;
      if constexpr (std::is_same_v<D, std::decay_t<G>> && !std::is_same_v<D, NoGuard>) {
        if (ghost[dst] >= 0) tok("G-" + std::to_string(ghost[dst]));
        xend(dst);
        d = std::move(tmp);
        ghost[dst] = gid;
        xnver[dst] = pend_nver;
        xover[dst] = pend_over;
        xlk[dst] = pend_lk;
      } else {
        tok("BADKIND");
      }
    });
    tok("R" + std::to_string(k) + "=" + res);
  }

  void
  exec(const OpI &o, int k)
  {
    tok("B" + std::to_string(k));
    const std::string rk = "R" + std::to_string(k) + "=";
    if (o.name == "lock") {
      auto &L = *locks.at(o.b);
      if (o.mode == "S") {
        auto tmp = L.LockS();
        long gid = -1;
        if (tmp) {
          gid = next_gid++;
          tok("G+" + std::to_string(gid) + ":" + std::to_string(o.b) + ":S");
        }
        assign(o.a, std::move(tmp), gid, k, gid >= 0 ? "1" : "0");
      } else if (o.mode == "SIX") {
        auto tmp = L.LockSIX();
        long gid = -1;
        if (tmp) {
          gid = next_gid++;
          tok("G+" + std::to_string(gid) + ":" + std::to_string(o.b) + ":SIX");
        }
        assign(o.a, std::move(tmp), gid, k, gid >= 0 ? "1" : "0");
      } else {
        auto tmp = L.LockX();
        long gid = -1;
        if (tmp) {
          gid = next_gid++;
          tok("G+" + std::to_string(gid) + ":" + std::to_string(o.b) + ":X");
        }
        xbegin(tmp, o.b);
        assign(o.a, std::move(tmp), gid, k, gid >= 0 ? "1" : "0");
      }
    } else if (o.name == "dtor") {
      visit(o.a, [&](auto &g) {
        using G = std::decay_t<decltype(g)>;
        if (ghost[o.a] >= 0) tok("G-" + std::to_string(ghost[o.a]));
        xend(o.a);
        g.~G();
        new (&g) G{};
        ghost[o.a] = -1;
      });
      tok(rk + "0");
    } else if (o.name == "massign" || o.name == "mctor") {
      const bool ctor = o.name == "mctor";
      visit(o.a, [&](auto &d) {
        using D = std::decay_t<decltype(d)>;
        visit(o.b, [&](auto &sv) {
          using Sv = std::decay_t<decltype(sv)>;
          if constexpr (std::is_same_v<D, Sv> && !std::is_same_v<D, NoGuard>) {
            if (ghost[o.a] >= 0) tok("G-" + std::to_string(ghost[o.a]));
            xend(o.a);
            if (ctor) {
              d.~D();
              new (&d) D(std::move(sv));
            } else {
              d = std::move(sv);
            }
            ghost[o.a] = ghost[o.b];
            ghost[o.b] = -1;
            xnver[o.a] = xnver[o.b];
            xover[o.a] = xover[o.b];
            xlk[o.a] = xlk[o.b];
          } else {
            tok("BADKIND");
          }
        });
      });
      tok(rk + "0");
    } else if (o.name == "upg") {
      auto &src = six.at(idx[o.b]);
      const long old = ghost[o.b];
      const void *src_dest = src.dest_;
      auto tmp = src.UpgradeToX();
      ghost[o.b] = -1;
      long gid = -1;
      if (tmp && old >= 0) {
        gid = old;
        tok("GU" + std::to_string(old) + ":X");
        xbegin(tmp, lock_index_of(src_dest));
      } else if (tmp) {
        gid = next_gid++;
        tok("G+" + std::to_string(gid) + ":?:X");
      } else if (old >= 0) {
        tok("GLOST" + std::to_string(old));
      }
      assign(o.a, std::move(tmp), gid, k, gid >= 0 ? "1" : "0");
    } else if (o.name == "dng") {
      auto &src = x.at(idx[o.b]);
      const long old = ghost[o.b];
      xend(o.b);
      auto tmp = src.DowngradeToSIX();
      ghost[o.b] = -1;
      long gid = -1;
      if (tmp && old >= 0) {
        gid = old;
        tok("GU" + std::to_string(old) + ":SIX");
      } else if (tmp) {
        gid = next_gid++;
        tok("G+" + std::to_string(gid) + ":?:SIX");
      } else if (old >= 0) {
        tok("GLOST" + std::to_string(old));
      }
      assign(o.a, std::move(tmp), gid, k, gid >= 0 ? "1" : "0");
    } else if (o.name == "bool") {
      bool b = false;
      visit(o.a, [&](auto &g) { b = static_cast<bool>(g); });
      tok(rk + (b ? "1" : "0") + "/" + (ghost[o.a] >= 0 ? "1" : "0"));
    } else if (o.name == "payrd") {
      auto &p = pay.at(o.a);
      uint64_t a = 0, b = 0;
      vsched::pseudo_op_fn("pay.r0", "P" + std::to_string(o.a), [&](uint64_t &rd, uint64_t &wr) {
        a = p.a;
        rd = wr = a;
      });
      vsched::pseudo_op_fn("pay.r1", "P" + std::to_string(o.a), [&](uint64_t &rd, uint64_t &wr) {
        b = p.b;
        rd = wr = b;
      });
      tok(rk + std::to_string(a) + "," + std::to_string(b));
    } else if (o.name == "paywr") {
      auto &p = pay.at(o.a);
      vsched::pseudo_op_fn("pay.w0", "P" + std::to_string(o.a), [&](uint64_t &rd, uint64_t &wr) {
        rd = p.a;
        p.a = o.val;
        wr = o.val;
      });
      vsched::pseudo_op_fn("pay.w1", "P" + std::to_string(o.a), [&](uint64_t &rd, uint64_t &wr) {
        rd = p.b;
        p.b = o.val;
        wr = o.val;
      });
      tok(rk + "0");
    } else {
      if constexpr (kIsOpt<Lock>) {
        exec_opt(o, k, rk);
      } else {
        tok("BADOP");
      }
    }
  }

  void
  exec_opt(const OpI &o, int k, const std::string &rk)
  {
    if constexpr (kIsOpt<Lock>) {
      if (o.name == "getver") {
        auto g = locks.at(o.b)->GetVersion();
        og.at(idx[o.a]) = g;
        tok(rk + hex(g.GetVersion()));
      } else if (o.name == "verify") {
        auto &g = og.at(idx[o.a]);
        const bool ok = g.VerifyVersion();
        tok(rk + (ok ? "1" : "0") + ":" + hex(g.GetVersion()));
      } else if (o.name == "try") {
        auto &src = og.at(idx[o.b]);
        const long lk = lock_index(src.dest_);
        if (o.mode == "S") {
          auto tmp = src.TryLockS();
          long gid = -1;
          if (tmp) {
            gid = next_gid++;
            tok("G+" + std::to_string(gid) + ":" + std::to_string(lk) + ":S");
          }
          assign(o.a, std::move(tmp), gid, k, std::string(gid >= 0 ? "1" : "0") + ":" + hex(src.GetVersion()));
        } else if (o.mode == "SIX") {
          auto tmp = src.TryLockSIX();
          long gid = -1;
          if (tmp) {
            gid = next_gid++;
            tok("G+" + std::to_string(gid) + ":" + std::to_string(lk) + ":SIX");
          }
          assign(o.a, std::move(tmp), gid, k, std::string(gid >= 0 ? "1" : "0") + ":" + hex(src.GetVersion()));
        } else {
          auto tmp = src.TryLockX();
          long gid = -1;
          if (tmp) {
            gid = next_gid++;
            tok("G+" + std::to_string(gid) + ":" + std::to_string(lk) + ":X");
          }
          xbegin(tmp, lk);
          assign(o.a, std::move(tmp), gid, k, std::string(gid >= 0 ? "1" : "0") + ":" + hex(src.GetVersion()));
        }
      } else if (o.name == "prep") {
        auto tmp = locks.at(o.b)->PrepareRead();
        long gid = -1;
        if (tmp) {
          gid = next_gid++;
          tok("G+" + std::to_string(gid) + ":" + std::to_string(o.b) + ":S");
        }
        const auto v = tmp.GetVersion();
        assign(o.a, std::move(tmp), gid, k, std::string(gid >= 0 ? "1" : "0") + ":" + hex(v));
      } else if (o.name == "cverify") {
        auto &g = cg.at(idx[o.a]);
        const bool ok = g.VerifyVersion();
        tok(rk + (ok ? "1" : "0") + ":" + hex(g.GetVersion()));
      } else if (o.name == "setver") {
        x.at(idx[o.a]).SetVersion(static_cast<uint32_t>(o.val));
        xnver[o.a] = static_cast<uint32_t>(o.val);
        tok(rk + "0");
      } else if (o.name == "xver") {
        // what the guard reports now / what it reported when it was granted (checked against the granting step's word
        // by the monitor at that time): C09 demands the two are equal whatever SetVersion did in between
        // (a guard variable that owns no grant - failed TryLockX, moved-from - has nothing to compare with)
        const auto now_ver = x.at(idx[o.a]).GetVersion();
        tok(rk + hex(now_ver) + "/" + hex(ghost[o.a] >= 0 ? xover[o.a] : now_ver));
      } else if (o.name == "gver") {
        uint32_t v = 0;
        if (kinds.at(o.a) == Kind::Opt) {
          v = og.at(idx[o.a]).GetVersion();
        } else {
          v = cg.at(idx[o.a]).GetVersion();
        }
        tok(rk + hex(v));
      } else {
        tok("BADOP");
      }
    }
  }

  long
  lock_index_of(const void *p) const
  {
    for (size_t i = 0; i < locks.size(); ++i)
      if (static_cast<const void *>(locks[i].get()) == p) return static_cast<long>(i);
    return -1;
  }

  long
  lock_index(const Lock *p) const
  {
    for (size_t i = 0; i < locks.size(); ++i)
      if (locks[i].get() == p) return static_cast<long>(i);
    return -1;
  }
};

template <class Lock>
std::string
run_scenario(const Scenario &sc)
{
  World<Lock> w(sc);
  std::vector<std::function<void()>> bodies;
  for (size_t t = 0; t < sc.progs.size(); ++t) {
    bodies.emplace_back([&w, &sc, t] {
      const auto &prog = sc.progs[t];
      for (size_t k = 0; k < prog.size(); ++k) w.exec(prog[k], static_cast<int>(k));
      tok("X");
    });
  }
  auto status = vsched::run(bodies, sc.opt);
  if constexpr (std::is_same_v<Lock, ::dbgroup::lock::MCSLock>) {
    // every thread has exited: all queue nodes must have been freed
    std::printf("NODES live=%d\n", vsched::live_nodes());
  }
  return status;
}

int
run_child(const Scenario &sc)
{
  std::setvbuf(stdout, nullptr, _IOLBF, 0);
  std::string status;
  if (sc.comp == "pess") {
    status = run_scenario<::dbgroup::lock::PessimisticLock>(sc);
  } else if (sc.comp == "opt") {
    status = run_scenario<::dbgroup::lock::OptimisticLock>(sc);
  } else {
    status = run_scenario<::dbgroup::lock::MCSLock>(sc);
  }
  std::printf("END %s\n", status.c_str());
  std::fflush(stdout);
  return 0;
}

}  // namespace

int
main()
{
  std::setvbuf(stdout, nullptr, _IOFBF, 1 << 16);
  std::string line;
  Scenario sc;
  bool have = false;
  while (std::getline(std::cin, line)) {
    if (line.rfind("SCEN ", 0) == 0) {
      sc = Scenario{};
      have = true;
      auto w = words(line);
      sc.id = w.at(1);
      std::string kept = "SCEN " + sc.id;
      for (size_t i = 2; i < w.size(); ++i) {
        auto kv = split(w[i], '=');
        if (kv.size() != 2) continue;
        if (kv[0] == "comp") sc.comp = kv[1];
        if (kv[0] == "nlocks") sc.nlocks = std::stoi(kv[1]);
        if (kv[0] == "policy") sc.opt.policy = std::stoi(kv[1]);
        if (kv[0] == "seed") sc.opt.seed = std::stoull(kv[1]);
        if (kv[0] == "max_steps") sc.opt.max_steps = std::stoi(kv[1]);
        if (kv[0] == "late") sc.opt.late_thread = std::stoi(kv[1]);
        if (kv[0] == "kinds") {
          for (auto &k : split(kv[1], ',')) {
            if (k == "S") sc.kinds.push_back(Kind::S);
            if (k == "SIX") sc.kinds.push_back(Kind::SIX);
            if (k == "X") sc.kinds.push_back(Kind::X);
            if (k == "Opt") sc.kinds.push_back(Kind::Opt);
            if (k == "Comp") sc.kinds.push_back(Kind::Comp);
          }
        }
        if (kv[0] != "retry") kept += " " + w[i];
      }
      kept += " retry=" + std::to_string(CPP_UTILITY_SPINLOCK_RETRY_NUM);
      sc.raw_scen = kept;
    } else if (line.rfind("T", 0) == 0 && (line.size() == 1 || line[1] == ' ')) {
      std::vector<OpI> prog;
      for (auto &p : split(line.substr(1), ';')) {
        auto o = parse_op(p);
        if (!o.name.empty()) prog.push_back(o);
      }
      sc.progs.push_back(prog);
      sc.raw_t.push_back(line);
    } else if (line.rfind("S ", 0) == 0) {
      for (auto &x : words(line.substr(2))) sc.opt.schedule.push_back(std::stoi(x));
    } else if (line.rfind("SP ", 0) == 0) {
      for (auto &x : words(line.substr(3))) sc.opt.spurious.push_back(std::stoi(x));
    } else if (line == "GO" && have) {
      std::fputs(sc.raw_scen.c_str(), stdout);
      std::fputc('\n', stdout);
      for (auto &t : sc.raw_t) {
        std::fputs(t.c_str(), stdout);
        std::fputc('\n', stdout);
      }
      std::fflush(stdout);
      static int hangs = 0;
      if (hangs >= 2) {  // do not spend the whole budget on a tree that hangs everywhere
        std::printf("END skipped\n");
        std::fflush(stdout);
        have = false;
        continue;
      }
      pid_t pid = fork();
      if (pid == 0) {
        // wall-clock guard: code of the implementation that never reaches a scheduling point again
        // (e.g. a loop over plain memory that does not terminate) cannot be preempted by the baton scheduler
        // The guard is on CPU time: a non-terminating local loop burns a core, a thread that merely waits for its turn on
        // a loaded machine does not.  The wall-clock alarm is a back-stop that only makes the scenario be skipped.
        // It counts user-mode time only (ITIMER_VIRTUAL): the baton hand-over between many threads costs system time,
        // which says nothing about the code under test.  Total CPU time and wall-clock time are back-stops that only
        // make the scenario be skipped.
        {
          struct itimerval it {};
          it.it_value.tv_sec = 20;
          setitimer(ITIMER_VIRTUAL, &it, nullptr);
          struct rlimit rl;
          rl.rlim_cur = 300;
          rl.rlim_max = 305;
          setrlimit(RLIMIT_CPU, &rl);
        }
        alarm(std::getenv("VERIF_ALARM") ? static_cast<unsigned>(std::atoi(std::getenv("VERIF_ALARM"))) : 120U);
        run_child(sc);
#ifdef VERIF_COVERAGE
        __gcov_dump();
#endif
        _exit(0);
      }
      int st = 0;
      waitpid(pid, &st, 0);
      if (WIFSIGNALED(st) && WTERMSIG(st) == SIGVTALRM) {
        ++hangs;
        std::printf("END hang\n");
        std::fflush(stdout);
      } else if (WIFSIGNALED(st) && (WTERMSIG(st) == SIGALRM || WTERMSIG(st) == SIGXCPU || WTERMSIG(st) == SIGKILL)) {
        std::printf("END skipped\n");  // wall-clock back-stop on a loaded machine: not a verdict
        std::fflush(stdout);
      } else if (!(WIFEXITED(st) && WEXITSTATUS(st) == 0)) {
        std::printf("END crash status=%d\n", st);
        std::fflush(stdout);
      }
      have = false;
    }
  }
  return 0;
}
