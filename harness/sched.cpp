// see sched.hpp
#include "sched.hpp"

#include <condition_variable>
#include <memory>
#include <cstdio>
#include <cstring>
#include <map>
#include <mutex>
#include <set>
#include <thread>
#include <unistd.h>

namespace
{
std::mutex mu;
std::condition_variable cv;
int cur = -1;  // tid allowed to run; -1 = controller
struct VT {
  bool finished = false;
  bool started = false;
  std::string line;
  bool line_open = false;
  int consecutive = 0;
  bool completed = true;  // the last flushed quantum completed an instruction (contains an R token)
};
std::vector<VT> vts;
// one condition variable per virtual thread (the scheduler waits on `cv`): handing the baton over wakes exactly one thread
// instead of all of them (with 64 threads the wake-ups were most of the run time)
std::vector<std::unique_ptr<std::condition_variable>> tcv;
thread_local int my_tid = -1;
std::map<const void *, std::string> names;
struct NamedRange {
  const char *lo;
  const char *hi;
  std::string name;
};
std::vector<NamedRange> ranges;  // objects named as a whole: an atomic member inside takes the name (no private member name needed)
std::map<const void *, int> ordinals;
int next_ord = 0;
int step_count = 0;
std::set<int> spurious_steps;
bool trace_on = false;
int node_base = 0;           // ordinals >= node_base are queue nodes N1, N2, ...
uint64_t canon_mask = 0;     // when non-zero: pointer field of logged values is replaced by the node number

const char *
mo_str(std::memory_order mo)
{
  switch (mo) {
    case std::memory_order_relaxed:
      return "rlx";
    case std::memory_order_consume:
      return "con";
    case std::memory_order_acquire:
      return "acq";
    case std::memory_order_release:
      return "rel";
    case std::memory_order_acq_rel:
      return "acq_rel";
    case std::memory_order_seq_cst:
      return "sc";
  }
  return "?";
}

const char *
op_str(vshim::OpK k)
{
  using vshim::OpK;
  switch (k) {
    case OpK::load:
      return "load";
    case OpK::store:
      return "store";
    case OpK::xchg:
      return "xchg";
    case OpK::cas:
      return "cas";
    case OpK::fadd:
      return "fadd";
    case OpK::fsub:
      return "fsub";
    case OpK::fxor:
      return "fxor";
    case OpK::fand:
      return "fand";
    case OpK::forr:
      return "for";
    case OpK::fence:
      return "fence";
  }
  return "?";
}

std::string
loc_name(const void *addr)
{
  if (addr == nullptr) return "-";
  auto it = names.find(addr);
  if (it != names.end()) return it->second;
  for (const auto &r : ranges) {
    if (static_cast<const char *>(addr) >= r.lo && static_cast<const char *>(addr) < r.hi) return r.name;
  }
  auto jt = ordinals.find(addr);
  if (jt != ordinals.end()) return "N" + std::to_string(jt->second - node_base + 1);
  return "?";
}

uint64_t
canon(uint64_t v)
{
  if (canon_mask == 0) return v;
  const uint64_t p = v & canon_mask;
  if (p == 0) return v;
  auto jt = ordinals.find(reinterpret_cast<const void *>(p));
  if (jt == ordinals.end()) return v | canon_mask;  // unknown address: all ones in the pointer field
  return (v & ~canon_mask) | static_cast<uint64_t>(jt->second - node_base + 1);
}

void
flush_line_locked(VT &vt)
{
  if (vt.line_open) {
    vt.completed = vt.line.find(" R") != std::string::npos;
    std::fputs(vt.line.c_str(), stdout);
    std::fputc('\n', stdout);
    vt.line.clear();
    vt.line_open = false;
  }
}

void
open_line(const char *op, const std::string &loc, const char *mo, const char *mof, uint64_t rd,
          uint64_t wr, bool ok)
{
  auto &vt = vts[my_tid];
  char buf[256];
  std::snprintf(buf, sizeof(buf), "Q %d %s %s %s %s 0x%llx 0x%llx %d |", my_tid, op, loc.c_str(), mo, mof,
                static_cast<unsigned long long>(rd), static_cast<unsigned long long>(wr), ok ? 1 : 0);
  vt.line = buf;
  vt.line_open = true;
}

uint64_t rng_state = 1;
uint64_t
rng()
{
  uint64_t z = (rng_state += 0x9e3779b97f4a7c15ULL);
  z = (z ^ (z >> 30)) * 0xbf58476d1ce4e5b9ULL;
  z = (z ^ (z >> 27)) * 0x94d049bb133111ebULL;
  return z ^ (z >> 31);
}

struct Sentinel {
  bool armed = false;
  ~Sentinel()
  {
    if (!armed) return;
    std::unique_lock<std::mutex> lk(mu);
    auto &vt = vts[my_tid];
    flush_line_locked(vt);
    vt.finished = true;
    cur = -1;
    my_tid = -1;
    cv.notify_all();
  }
};
thread_local Sentinel sentinel;

}  // namespace

namespace vshim
{
void
yield_point()
{
  if (my_tid < 0) return;
  std::unique_lock<std::mutex> lk(mu);
  auto &vt = vts[my_tid];
  flush_line_locked(vt);
  cur = -1;
  cv.notify_all();
  const int me = my_tid;
  tcv[me]->wait(lk, [me] { return cur == me; });
}

void
log_op(OpK op, const void *addr, std::memory_order mo, std::memory_order mo_fail, uint64_t rd, uint64_t wr,
       bool ok)
{
  if (my_tid < 0) return;
  std::unique_lock<std::mutex> lk(mu);
  open_line(op_str(op), loc_name(addr), mo_str(mo), mo_str(mo_fail), canon(rd), canon(wr), ok);
}

void
register_object(const void *addr)
{
  if (!trace_on) return;
  std::unique_lock<std::mutex> lk(mu);
  const int ord = next_ord++;
  ordinals[addr] = ord;
  if (my_tid >= 0 && vts[my_tid].line_open) {
    vts[my_tid].line += " NA" + std::to_string(ord - node_base + 1);
  }
}

void
unregister_object(const void *addr)
{
  if (!trace_on) return;
  std::unique_lock<std::mutex> lk(mu);
  auto it = ordinals.find(addr);
  if (it != ordinals.end()) {
    if (my_tid >= 0 && vts[my_tid].line_open) {
      vts[my_tid].line += " NF" + std::to_string(it->second - node_base + 1);
    }
    ordinals.erase(it);
  }
  names.erase(addr);
}

bool
take_spurious()
{
  if (my_tid < 0) return false;
  std::unique_lock<std::mutex> lk(mu);
  return spurious_steps.count(step_count) > 0;
}

bool
tracing()
{
  return my_tid >= 0;
}

void
hb_yield()
{
  yield_point();
}

void
hb_pseudo(const char *name, const void *addr, uint64_t rd, uint64_t wr)
{
  if (my_tid < 0) return;
  std::unique_lock<std::mutex> lk(mu);
  open_line(name, addr == nullptr ? std::string("-") : loc_name(addr), "-", "-", rd, wr, true);
}

namespace
{
std::vector<std::thread::native_handle_type> residue_handles;  // handle whose id hashes to residue r
int residue_mod = 0;
thread_local int my_probe_start = 0;
}  // namespace

void
prepare_thread_ids(int n)
{
  residue_mod = n;
  residue_handles.assign(n, 0);
  std::vector<bool> have(n, false);
  int found = 0;
  for (unsigned long h = 1; found < n && h < 1000000UL; ++h) {
    std::thread::id id{static_cast<std::thread::native_handle_type>(h)};
    const auto r = std::hash<std::thread::id>{}(id) % static_cast<size_t>(n);
    if (!have[r]) {
      have[r] = true;
      residue_handles[r] = static_cast<std::thread::native_handle_type>(h);
      ++found;
    }
  }
}

void
set_probe_start(int r)
{
  my_probe_start = r;
}

std::thread::id
chosen_thread_id()
{
  if (residue_mod == 0) return std::thread::id{};
  return std::thread::id{residue_handles[static_cast<size_t>(my_probe_start) % residue_handles.size()]};
}
}  // namespace vshim

namespace vsched
{
void
tok(const std::string &t)
{
  if (my_tid < 0) return;
  std::unique_lock<std::mutex> lk(mu);
  auto &vt = vts[my_tid];
  if (!vt.line_open) {
    // should not happen: tokens always follow an operation of the same thread
    vt.line = "Q " + std::to_string(my_tid) + " none - - - 0x0 0x0 1 |";
    vt.line_open = true;
  }
  vt.line += ' ';
  vt.line += t;
}

void
pseudo_op(const char *name, const std::string &loc, uint64_t rd, uint64_t wr)
{
  if (my_tid < 0) return;
  vshim::yield_point();
  std::unique_lock<std::mutex> lk(mu);
  open_line(name, loc, "-", "-", rd, wr, true);
}

void
pseudo_op_fn(const char *name, const std::string &loc, const std::function<void(uint64_t &, uint64_t &)> &act)
{
  if (my_tid < 0) {
    uint64_t a = 0, b = 0;
    act(a, b);
    return;
  }
  vshim::yield_point();
  uint64_t rd = 0, wr = 0;
  act(rd, wr);
  std::unique_lock<std::mutex> lk(mu);
  open_line(name, loc, "-", "-", rd, wr, true);
}

void
name_object(const void *addr, const std::string &name)
{
  std::unique_lock<std::mutex> lk(mu);
  names[addr] = name;
}

void
name_range(const void *addr, size_t len, const std::string &name)
{
  std::unique_lock<std::mutex> lk(mu);
  ranges.push_back({static_cast<const char *>(addr), static_cast<const char *>(addr) + len, name});
}

void
reset_names()
{
  std::unique_lock<std::mutex> lk(mu);
  names.clear();
  ranges.clear();
  ordinals.clear();
  next_ord = 0;
  trace_on = true;
}

int
quiet_enter()
{
  const int saved = my_tid;
  if (saved >= 0) {
    std::unique_lock<std::mutex> lk(mu);
    // keep the current quantum line open: nothing is appended while quiet
  }
  my_tid = -1;
  return saved;
}

void
quiet_leave(int saved)
{
  my_tid = saved;
}

int
current_tid()
{
  return my_tid;
}

void
set_node_naming(int base, uint64_t ptr_mask)
{
  std::unique_lock<std::mutex> lk(mu);
  node_base = base;
  canon_mask = ptr_mask;
}

int
live_nodes()
{
  std::unique_lock<std::mutex> lk(mu);
  int n = 0;
  for (auto &kv : ordinals)
    if (kv.second >= node_base) ++n;
  return n;
}

int
steps_done()
{
  return step_count;
}

std::string
run(const std::vector<std::function<void()>> &bodies, const Options &opt)
{
  const int n = static_cast<int>(bodies.size());
  {
    std::unique_lock<std::mutex> lk(mu);
    vts.assign(n, VT{});
    tcv.clear();
    for (int i = 0; i < n; ++i) tcv.push_back(std::make_unique<std::condition_variable>());
    cur = -1;
    step_count = 0;
    spurious_steps.clear();
    for (int s : opt.spurious) spurious_steps.insert(s);
    rng_state = opt.seed * 0x2545F4914F6CDD1DULL + 0x1234567;
  }
  std::vector<std::thread> threads;
  threads.reserve(n);
  for (int i = 0; i < n; ++i) {
    threads.emplace_back([i, &bodies] {
      {
        std::unique_lock<std::mutex> lk(mu);
        my_tid = i;
        sentinel.armed = true;
        vts[i].started = true;
        cv.notify_all();
        tcv[i]->wait(lk, [i] { return cur == i; });
        open_line("start", "-", "-", "-", 0, 0, true);
      }
      bodies[i]();
      // the sentinel's destructor (after all other thread_local destructors) reports completion
    });
  }

  std::vector<long> prio(n);
  for (int i = 0; i < n; ++i) prio[i] = static_cast<long>(rng() % 1000) + 1000;
  std::set<int> change_points;
  if (opt.policy == 3) {
    for (int d = 0; d + 1 < opt.pct_depth; ++d) change_points.insert(static_cast<int>(rng() % 60));
  }
  int last = -1;
  int rr = 0;
  long low_water = 0;
  std::string status = "ok";
  {
    std::unique_lock<std::mutex> lk(mu);
    cv.wait(lk, [n] {
      for (int i = 0; i < n; ++i)
        if (!vts[i].started) return false;
      return true;
    });
    while (true) {
      cv.wait(lk, [] { return cur == -1; });
      std::vector<int> runnable;
      for (int i = 0; i < n; ++i)
        if (!vts[i].finished && i != opt.late_thread) runnable.push_back(i);
      if (runnable.empty() && opt.late_thread >= 0 && opt.late_thread < n && !vts[opt.late_thread].finished)
        runnable.push_back(opt.late_thread);
      if (runnable.empty()) break;
      if (step_count >= opt.max_steps) {
        status = "stuck";
        break;
      }
      int pick = -1;
      if (step_count < static_cast<int>(opt.schedule.size())) {
        const int want = opt.schedule[step_count];
        for (int r : runnable)
          if (r == want) pick = r;
      }
      if (pick < 0) {
        switch (opt.policy) {
          case 1:
            pick = runnable[rng() % runnable.size()];
            break;
          case 2: {
            bool keep = false;
            if (last >= 0 && !vts[last].finished && vts[last].consecutive < 12) keep = (rng() % 100) < 70;
            pick = keep ? last : runnable[rng() % runnable.size()];
            break;
          }
          case 3: {
            // demotion puts a thread below every other one (a spinning thread must not starve the rest)
            if (change_points.count(step_count) && last >= 0) prio[last] = --low_water;
            if (last >= 0 && vts[last].consecutive >= 8) {
              prio[last] = --low_water;
              vts[last].consecutive = 0;
            }
            long best = std::numeric_limits<long>::min();
            pick = runnable[0];
            for (int r : runnable)
              if (prio[r] > best) {
                best = prio[r];
                pick = r;
              }
            break;
          }
          case 4: {
            // sequential histories: a thread keeps the processor until its current instruction is complete
            const bool boundary = last < 0 || vts[last].finished || vts[last].completed;
            pick = (!boundary) ? last : runnable[rng() % runnable.size()];
            bool ok = false;
            for (int r : runnable) ok = ok || r == pick;
            if (!ok) pick = runnable[rng() % runnable.size()];
            break;
          }
          default: {
            // round robin
            for (int k = 0; k < n; ++k) {
              const int c = (rr + k) % n;
              bool ok = false;
              for (int r : runnable) ok = ok || r == c;
              if (ok) {
                pick = c;
                break;
              }
            }
            rr = (pick + 1) % n;
          }
        }
      }
      if (pick == last) {
        vts[pick].consecutive++;
      } else {
        vts[pick].consecutive = 0;
      }
      last = pick;
      ++step_count;
      cur = pick;
      tcv[pick]->notify_one();
    }
    if (status == "stuck") {
      // virtual threads are still blocked inside the library: report and leave the process
      for (auto &vt : vts) flush_line_locked(vt);
      std::printf("END stuck\n");
      std::fflush(stdout);
      _exit(0);
    }
  }
  for (auto &t : threads) t.join();
  return status;
}

}  // namespace vsched
