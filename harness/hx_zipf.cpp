// Zipf harness: drives ZipfDistribution / ApproxZipfDistribution of the repository (all four integer
// types) with scripted engine outputs, exports CDF values as bit patterns, checks purity (copy, move,
// equal parameters, concurrent const use) and compares with a long double reference.
// No scheduler: the generators have no shared mutable state to interleave (that is the property C19).
//
// Input (stdin):
//   ZCASE <id> <exact|approx> <u32|u64|i32|i64> <min> <max> <alpha bits (hex of the double)>
//   ZK <k> ...      GetCDF queries
//   ZS <raw> ...    one sample per scripted 64-bit engine output
//   ZP <count> <seed> <threads>
//   ZR              long double reference over all bins
//   ZGO
#ifdef VERIF_COVERAGE
extern "C" void __gcov_dump(void);  // coverage build only (check/coverage.py)
#endif
#include <limits>
#include <sys/wait.h>
#include <unistd.h>

#include <algorithm>
#include <atomic>
#include <cinttypes>
#include <cmath>
#include <cstdint>
#include <cstdio>
#include <cstring>
#include <iostream>
#include <random>
#include <sstream>
#include <stdexcept>
#include <string>
#include <thread>
#include <vector>

#include "dbgroup/random/zipf.hpp"

namespace
{
struct Scripted {
  using result_type = uint64_t;
  const std::vector<uint64_t> *vals;
  size_t pos = 0;
  static constexpr result_type min() { return 0; }
  static constexpr result_type max() { return ~0ULL; }
  result_type operator()() { return (*vals)[pos++ % vals->size()]; }
};

uint64_t
bits(double d)
{
  uint64_t b;
  std::memcpy(&b, &d, sizeof(b));
  return b;
}

double
from_bits(uint64_t b)
{
  double d;
  std::memcpy(&d, &b, sizeof(d));
  return d;
}

struct Case {
  std::string id, cls, type;
  std::string min_s, max_s;
  uint64_t alpha_bits = 0;
  std::vector<long long> ks;
  std::vector<uint64_t> raws;
  long pcount = 0;
  uint64_t pseed = 1;
  int pthreads = 0;
  bool ref = false;
  std::string raw_line;
};

template <class Int>
Int
parse_int(const std::string &s)
{
  if constexpr (std::is_signed_v<Int>) {
    return static_cast<Int>(std::stoll(s));
  } else {
    return static_cast<Int>(std::stoull(s));
  }
}

template <class Int>
std::string
to_s(Int v)
{
  return std::to_string(v);
}

template <class Gen, class Int>
void
run_case(const Case &c)
{
  const Int mn = parse_int<Int>(c.min_s);
  const Int mx = parse_int<Int>(c.max_s);
  const double alpha = from_bits(c.alpha_bits);
  if (mx < mn) {
    bool threw = false;
    try {
      Gen g{mn, mx, alpha};
      (void)g;
    } catch (const std::exception &) {
      threw = true;
    }
    std::printf("ZTHROW %d\n", threw ? 1 : 0);
    return;
  }
  const unsigned __int128 n128 = static_cast<unsigned __int128>(static_cast<__int128>(mx) - static_cast<__int128>(mn)) + 1;
  std::printf("ZN %llu\n", static_cast<unsigned long long>(n128 > 0xffffffffffffffffULL ? 0 : static_cast<uint64_t>(n128)));
  const Gen g{mn, mx, alpha};
  const uint64_t n = static_cast<uint64_t>(n128);
  for (auto k : c.ks) {
    if (k < 0 || static_cast<unsigned __int128>(k) >= n128) continue;
    std::printf("ZCDF %lld %016" PRIx64 "\n", k, bits(g.GetCDF(static_cast<Int>(k))));
  }
  // default-constructed generator
  {
    Gen d{};
    std::mt19937_64 e{c.pseed};
    bool all0 = true;
    for (int i = 0; i < 64; ++i) all0 = all0 && d(e) == 0;
    std::printf("ZPURE default_zero %d\n", all0 ? 1 : 0);
    // a default-constructed generator has one bin: the CDF at its last (only) bin is exactly 1 - also for its copies
    bool one = false;
    try {
      Gen d2 = d;
      Gen d3{};
      d3 = d;
      one = d.GetCDF(0) == 1.0 && d2.GetCDF(0) == 1.0 && d3.GetCDF(0) == 1.0;
    } catch (const std::exception &) {
      one = false;
    }
    std::printf("ZPURE default_cdf_one %d\n", one ? 1 : 0);
  }
  for (auto raw : c.raws) {
    std::vector<uint64_t> one{raw};
    Scripted e1{&one}, e2{&one};
    std::uniform_real_distribution<double> dist{0.0, 1.0};
    const double u = dist(e2);
    const Int v = g(e1);
    const __int128 bin = static_cast<__int128>(v) - static_cast<__int128>(mn);
    std::string lo = "-", hi = "-";
    char buf[32];
    if (bin >= 0 && static_cast<unsigned __int128>(bin) < n128) {
      std::snprintf(buf, sizeof(buf), "%016" PRIx64, bits(g.GetCDF(static_cast<Int>(bin))));
      hi = buf;
      if (bin >= 1) {
        std::snprintf(buf, sizeof(buf), "%016" PRIx64, bits(g.GetCDF(static_cast<Int>(bin - 1))));
        lo = buf;
      }
    }
    std::printf("ZSAMPLE %" PRIu64 " %016" PRIx64 " %s %s %s\n", raw, bits(u), to_s(v).c_str(), lo.c_str(), hi.c_str());
  }
  if (c.pcount > 0) {
    const long cnt = c.pcount;
    auto seq = [cnt](const Gen &gen, uint64_t seed) {
      std::mt19937_64 e{seed};
      std::vector<Int> out;
      out.reserve(cnt);
      for (long i = 0; i < cnt; ++i) out.push_back(gen(e));
      return out;
    };
    const auto base = seq(g, c.pseed);
    const Gen g2{mn, mx, alpha};
    std::printf("ZPURE equal_params %d\n", seq(g2, c.pseed) == base ? 1 : 0);
    if (n >= 2 && n <= 60000 && c.pthreads > 0) {
      // generators constructed while ANOTHER thread constructs a generator with other parameters (same class and integer
      // type) equal the ones constructed alone: the constructors share no scratch state
      bool same = true;
      const int rounds = n > 5000 ? 4 : 10;
      for (int r = 0; r < rounds && same; ++r) {
        std::atomic<int> go{0};
        const double alpha2 = alpha + 0.37;
        const Int mn2 = mn;
        const Int mx2 = (n > 3) ? static_cast<Int>(mx - static_cast<Int>(n / 3)) : mx;
        std::vector<double> got1, got2;
        auto table = [&](const Gen &x, Int lo, Int hi) {
          std::vector<double> t;
          const uint64_t m = static_cast<uint64_t>(static_cast<__int128>(hi) - static_cast<__int128>(lo)) + 1;
          for (uint64_t k = 0; k < m; k += (m > 4096 ? m / 1024 : 1)) t.push_back(x.GetCDF(static_cast<Int>(k)));
          t.push_back(x.GetCDF(static_cast<Int>(m - 1)));
          return t;
        };
        std::thread t1([&] {
          ++go;
          while (go.load() < 2) {
          }
          const Gen x{mn, mx, alpha};
          got1 = table(x, mn, mx);
        });
        std::thread t2([&] {
          ++go;
          while (go.load() < 2) {
          }
          const Gen y{mn2, mx2, alpha2};
          got2 = table(y, mn2, mx2);
        });
        t1.join();
        t2.join();
        const Gen y0{mn2, mx2, alpha2};
        same = same && got1 == table(g, mn, mx) && got2 == table(y0, mn2, mx2);
      }
      std::printf("ZPURE concurrent_construction %d\n", same ? 1 : 0);
    }
    Gen copy{g};
    std::printf("ZPURE copy %d\n", seq(copy, c.pseed) == base ? 1 : 0);
    Gen assigned{};
    assigned = g;
    std::printf("ZPURE copy_assign %d\n", seq(assigned, c.pseed) == base ? 1 : 0);
    Gen tmp{g};
    Gen moved{std::move(tmp)};
    std::printf("ZPURE move %d\n", seq(moved, c.pseed) == base ? 1 : 0);
    std::printf("ZPURE stateless %d\n", seq(g, c.pseed) == base ? 1 : 0);
    // construction history: the same parameters after other generators were built on this thread (sharing the
    // bounds / the skew / the bin count with it), and on a fresh thread
    {
      auto same_cdf = [&](const Gen &h) {
        for (auto k : c.ks) {
          if (k < 0 || static_cast<unsigned __int128>(k) >= n128) continue;
          if (bits(h.GetCDF(static_cast<Int>(k))) != bits(g.GetCDF(static_cast<Int>(k)))) return false;
        }
        return true;
      };
      // ... and within the tolerance of the CDF property (C18), for the verdict on GetCDF itself
      auto close_cdf = [&](const Gen &h) {
        for (auto k : c.ks) {
          if (k < 0 || static_cast<unsigned __int128>(k) >= n128) continue;
          const double a = h.GetCDF(static_cast<Int>(k)), b = g.GetCDF(static_cast<Int>(k));
          if (bits(a) == bits(b)) continue;
          if (!(std::fabs(a - b) <= 1.0e-9)) return false;
        }
        return true;
      };
      using Other = std::conditional_t<std::is_same_v<Gen, ::dbgroup::random::ZipfDistribution<Int>>,
                                       ::dbgroup::random::ApproxZipfDistribution<Int>,
                                       ::dbgroup::random::ZipfDistribution<Int>>;
      bool ok = true;
      bool cdf_ok = true;
      const Int one = static_cast<Int>(1);
      auto decoy = [&](Int lo, Int hi, double al) {
        if (hi < lo) return;
        try {
          const Gen d{lo, hi, al};
          (void)d;
        } catch (const std::exception &) {
        }
      };
      if (n >= 3 && n <= 4000000ULL) {
        decoy(static_cast<Int>(mn + one), mx, alpha);                    // same max and skew, other min
        decoy(mn, static_cast<Int>(mx - one), alpha);                    // same min and skew, other max
        decoy(mn, mx, alpha + 0.25);                                     // same bounds, other skew
        decoy(static_cast<Int>(mn + static_cast<Int>(n / 2)), mx, alpha);
        const Gen g3{mn, mx, alpha};
        ok = ok && same_cdf(g3) && seq(g3, c.pseed) == base;
        cdf_ok = cdf_ok && close_cdf(g3);
        // the other class with the very same parameters (and with the same bin count at another offset) just before
        if (n <= 500000ULL) try {
          const Other o1{mn, mx, alpha};
          (void)o1;
          const Other o2{static_cast<Int>(mn + one), static_cast<Int>(mx), alpha};
          (void)o2;
          const Other o3{mn, mx, alpha};
          (void)o3;
        } catch (const std::exception &) {
        }
        const Gen g6{mn, mx, alpha};
        ok = ok && same_cdf(g6) && seq(g6, c.pseed) == base;
        cdf_ok = cdf_ok && close_cdf(g6);
        decoy(static_cast<Int>(mn + one), mx, alpha);
        bool fresh_ok = true;
        std::thread t{[&] {
          const Gen g4{mn, mx, alpha};
          fresh_ok = same_cdf(g4) && seq(g4, c.pseed) == base;
        }};
        t.join();
        const Gen g5{mn, mx, alpha};
        ok = ok && fresh_ok && same_cdf(g5);
      }
      std::printf("ZPURE history %d\n", ok ? 1 : 0);
      std::printf("ZPURE history_cdf %d\n", cdf_ok ? 1 : 0);
    }
    // a copy / an assigned / a moved-to generator must not depend on what happens to its source afterwards:
    // the source is overwritten with another distribution of the same bin count (its storage is reused in place),
    // then destroyed, and the heap is churned
    {
      bool ok = true;
      auto churn = [&] {
        std::vector<std::vector<double>> junk;
        const size_t len = (n >= 1 && n <= (1ULL << 20)) ? static_cast<size_t>(n) : 1024;
        for (int i = 0; i < 6; ++i) junk.emplace_back(len, 0.25 + 0.1 * i);
        return junk.size();
      };
      {
        auto *src = new Gen{mn, mx, alpha};   // constructed from the parameters, not copied
        Gen cp{*src};
        Gen as{};
        as = *src;
        try {
          const Gen other{mn, mx, alpha + 0.5};
          *src = other;
        } catch (const std::exception &) {
        }
        ok = ok && seq(cp, c.pseed) == base && seq(as, c.pseed) == base;
        delete src;
        (void)churn();
        ok = ok && seq(cp, c.pseed) == base && seq(as, c.pseed) == base;
      }
      {
        auto *src = new Gen{mn, mx, alpha};
        Gen mv{std::move(*src)};
        Gen ma{};
        auto *src2 = new Gen{mn, mx, alpha};
        ma = std::move(*src2);
        delete src;
        delete src2;
        (void)churn();
        ok = ok && seq(mv, c.pseed) == base && seq(ma, c.pseed) == base;
      }
      std::printf("ZPURE source_lifetime %d\n", ok ? 1 : 0);
    }
    // assignment over a live generator with MORE (and with fewer) bins than the source: the target must become an exact
    // replica (same samples, same CDF, same range), nothing of its former table may survive
    {
      bool ok = true;
      bool range_ok = true;
      bool cdf_ok = true;
      auto same = [&](const Gen &h) {
        try {
          for (auto k : c.ks) {
            if (k < 0 || static_cast<unsigned __int128>(k) >= n128) continue;
            if (bits(h.GetCDF(static_cast<Int>(k))) != bits(g.GetCDF(static_cast<Int>(k)))) cdf_ok = false;
          }
        } catch (const std::exception &) {
          cdf_ok = false;
        }
        const auto sq = seq(h, c.pseed);
        for (auto v : sq)
          if (v < mn || mx < v) range_ok = false;
        return cdf_ok && sq == base;
      };
      const unsigned __int128 room = static_cast<unsigned __int128>(std::numeric_limits<Int>::max()) - static_cast<unsigned __int128>(static_cast<__int128>(mx) - static_cast<__int128>(std::numeric_limits<Int>::min())) - (static_cast<unsigned __int128>(0) - static_cast<unsigned __int128>(static_cast<__int128>(std::numeric_limits<Int>::min()))) ;
      (void)room;
      if (n >= 1 && n <= 2000000ULL) {
        // larger target: same min, max moved up (or min moved down when max sits at the type's limit)
        const Int lim_hi = std::numeric_limits<Int>::max();
        const Int lim_lo = std::numeric_limits<Int>::min();
        const Int extra = static_cast<Int>(n < 1000 ? 1000 : 137);
        try {
          if (mx <= static_cast<Int>(lim_hi - extra - 300)) {
            Gen bigger{mn, static_cast<Int>(mx + extra), alpha + 0.25};
            bigger = g;
            ok = ok && same(bigger);
            Gen bigger2{mn, static_cast<Int>(mx + extra), alpha};
            bigger2 = Gen{g};
            ok = ok && same(bigger2);
          } else if (mn >= static_cast<Int>(lim_lo + extra)) {
            Gen bigger{static_cast<Int>(mn - extra), mx, alpha + 0.25};
            bigger = g;
            ok = ok && same(bigger);
          }
          if (n >= 3) {
            Gen smaller{mn, static_cast<Int>(mn + static_cast<Int>((n - 1) / 2)), alpha};
            smaller = g;
            ok = ok && same(smaller);
          }
          {
            // a moved-from generator that is assigned again (the middle step of a swap), equal and other parameters
            Gen a{mn, mx, alpha};
            Gen tmp{std::move(a)};
            a = g;
            ok = ok && same(a) && same(tmp);
            Gen b{mn, mx, alpha};
            Gen tmp2{};
            tmp2 = std::move(b);
            b = Gen{mn, mx, alpha};
            ok = ok && same(b) && same(tmp2);
            Gen d{};
            d = g;
            d = d;  // NOLINT self-assignment
            ok = ok && same(d);
          }
        } catch (const std::exception &) {
          ok = false;
        }
      }
      std::printf("ZPURE assign_over_live %d\n", ok ? 1 : 0);
      std::printf("ZPURE assigned_in_range %d\n", range_ok ? 1 : 0);
      std::printf("ZPURE assigned_cdf %d\n", cdf_ok ? 1 : 0);
    }
    bool in_range = true;
    for (auto v : base) in_range = in_range && !(v < mn) && !(mx < v);
    std::printf("ZPURE in_range %d\n", in_range ? 1 : 0);
    if (c.pthreads > 0) {
      std::vector<std::vector<Int>> alone, shared(c.pthreads);
      for (int t = 0; t < c.pthreads; ++t) alone.push_back(seq(g, c.pseed + 1 + t));
      std::vector<std::thread> th;
      for (int t = 0; t < c.pthreads; ++t) {
        th.emplace_back([&, t] {
          std::mt19937_64 e{c.pseed + 1 + t};
          for (long i = 0; i < cnt; ++i) shared[t].push_back(g(e));
        });
      }
      for (auto &x : th) x.join();
      std::printf("ZPURE threads %d\n", shared == alone ? 1 : 0);
    }
  }
  if (c.ref && n > 20000000ULL) {
    // sampled long double reference for very many bins: partial sums H(k) = sum_{i<=k} i^-alpha by exact summation of the
    // first M terms plus Euler-Maclaurin from M to k (integral, end-point, first and third derivative terms)
    const long double a = alpha;
    const uint64_t M = 200000;
    long double head = 0;
    for (uint64_t i = 1; i <= M; ++i) head += 1.0L / powl(static_cast<long double>(i), a);
    auto f = [&](long double x) { return powl(x, -a); };
    auto f1 = [&](long double x) { return -a * powl(x, -a - 1); };
    auto f3 = [&](long double x) { return -a * (a + 1) * (a + 2) * powl(x, -a - 3); };
    auto H = [&](uint64_t k) -> long double {
      if (k <= M) {
        long double h = 0;
        for (uint64_t i = 1; i <= k; ++i) h += 1.0L / powl(static_cast<long double>(i), a);
        return h;
      }
      const long double x = static_cast<long double>(k), m = static_cast<long double>(M);
      const long double e = 1.0L - a;
      const long double integral = (fabsl(e) < 1e-12L) ? logl(x / m) : powl(m, e) * expm1l(e * logl(x / m)) / e;
      return head + integral + (f(x) - f(m)) / 2 + (f1(x) - f1(m)) / 12 - (f3(x) - f3(m)) / 720;
    };
    const long double total = H(n);
    std::vector<uint64_t> ks;
    for (auto k : c.ks)
      if (k >= 0 && static_cast<uint64_t>(k) < n) ks.push_back(static_cast<uint64_t>(k));
    for (long double x = 100; x < static_cast<long double>(n); x *= 1.31L) ks.push_back(static_cast<uint64_t>(x));
    std::sort(ks.begin(), ks.end());
    double worst = 0;
    uint64_t worst_k = 0;
    for (auto k : ks) {
      const long double ref = (k + 1 == n) ? 1.0L : H(k + 1) / total;
      const double got = g.GetCDF(static_cast<Int>(k));
      const double err = static_cast<double>(fabsl(static_cast<long double>(got) - ref));
      if (!(err <= worst)) {
        worst = err;
        worst_k = k;
      }
    }
    std::printf("ZREF %016" PRIx64 " %" PRIu64 " 1 -1 %016" PRIx64 "\n", bits(worst), worst_k,
                bits(g.GetCDF(static_cast<Int>(n - 1))));
  }
  if (c.ref && n >= 1 && n <= 20000000ULL) {
    // long double reference: normalised partial sums of i^-alpha
    const long double a = alpha;
    long double total = 0;
    for (uint64_t i = 1; i <= n; ++i) total += 1.0L / powl(static_cast<long double>(i), a);
    long double run = 0;
    double worst = 0;
    uint64_t worst_k = 0;
    bool monotone = true;
    double prev = 0;
    long long bad_k = -1;
    for (uint64_t k = 0; k < n; ++k) {
      run += 1.0L / powl(static_cast<long double>(k + 1), a);
      const long double ref = (k + 1 == n) ? 1.0L : run / total;
      const double got = g.GetCDF(static_cast<Int>(k));
      const double err = static_cast<double>(fabsl(static_cast<long double>(got) - ref));
      if (!(err <= worst)) {
        worst = err;
        worst_k = k;
      }
      if (k > 0 && !(got >= prev) && bad_k < 0) {
        monotone = false;
        bad_k = static_cast<long long>(k);
      }
      prev = got;
    }
    std::printf("ZREF %016" PRIx64 " %" PRIu64 " %d %lld %016" PRIx64 "\n", bits(worst), worst_k, monotone ? 1 : 0, bad_k,
                bits(g.GetCDF(static_cast<Int>(n - 1))));
  }
}

template <class Int>
void
dispatch(const Case &c)
{
  if (c.cls == "exact") {
    run_case<::dbgroup::random::ZipfDistribution<Int>, Int>(c);
  } else {
    run_case<::dbgroup::random::ApproxZipfDistribution<Int>, Int>(c);
  }
}

}  // namespace

int
main()
{
  std::setvbuf(stdout, nullptr, _IOFBF, 1 << 16);
  std::string line;
  Case c;
  bool have = false;
  while (std::getline(std::cin, line)) {
    std::istringstream is(line);
    std::string tag;
    is >> tag;
    if (tag == "ZCASE") {
      c = Case{};
      have = true;
      c.raw_line = line;
      std::string ab;
      is >> c.id >> c.cls >> c.type >> c.min_s >> c.max_s >> ab;
      c.alpha_bits = std::stoull(ab, nullptr, 16);
    } else if (tag == "ZK") {
      long long k;
      while (is >> k) c.ks.push_back(k);
    } else if (tag == "ZS") {
      std::string r;
      while (is >> r) c.raws.push_back(std::stoull(r));
    } else if (tag == "ZP") {
      is >> c.pcount >> c.pseed >> c.pthreads;
    } else if (tag == "ZR") {
      c.ref = true;
    } else if (tag == "ZGO" && have) {
      std::puts(c.raw_line.c_str());
      std::fflush(stdout);
      pid_t pid = fork();
      if (pid == 0) {
        std::setvbuf(stdout, nullptr, _IOLBF, 0);
        alarm(60);
        try {
          if (c.type == "u32") dispatch<uint32_t>(c);
          if (c.type == "u64") dispatch<uint64_t>(c);
          if (c.type == "i32") dispatch<int32_t>(c);
          if (c.type == "i64") dispatch<int64_t>(c);
          std::printf("ZEND ok\n");
        } catch (const std::exception &e) {
          std::printf("ZEND exception %s\n", e.what());
        }
        std::fflush(stdout);
#ifdef VERIF_COVERAGE
        __gcov_dump();
#endif
        _exit(0);
      }
      int st = 0;
      waitpid(pid, &st, 0);
      if (!(WIFEXITED(st) && WEXITSTATUS(st) == 0)) {
        std::printf("ZEND %s status=%d\n", (WIFSIGNALED(st) && WTERMSIG(st) == SIGALRM) ? "timeout" : "crash", st);
        std::fflush(stdout);
      }
      have = false;
    }
  }
  return 0;
}
